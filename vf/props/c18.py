"""C18 — job-shop schedules and VRPTW route plans are structurally valid and honestly scored;
no destroy/repair operator ever breaks the VRPState bookkeeping."""

from itertools import product

ID = "C18"
RULE = ("job shop: seeded job lists (1-6 jobs x 1-5 ops; machine indices with gaps, zero durations, repeated "
        "machines, single-machine contention) x 5 dispatch rules (any letter case) x local search on/off x "
        "max_iter 1-200 x seeds x optional early stop, plus all instances with <=2 jobs x <=2 ops over 2 machines "
        "and durations {0,1,2}; the returned schedule is judged clause by clause (every op present, end-start = "
        "duration, job order, pairwise machine overlap, objective = latest end); intermediate schedules of "
        "_dispatch/_rebuild_schedule are judged too but only counted (L2-informational). "
        "VRPTW: seeded customer sets (2-10 customers, integer coordinates, windows tight/loose/inf, demands incl. "
        "over-demand, service times, required_vehicles 1-3 incl. more than the fleet, fleets 1-4, homogeneous or "
        "per-vehicle capacities, Customer objects or tuples, non-default weights, early stop) through solve_vrptw; "
        "the 8 exported operators are wrapped in solvor.vrp's namespace and the state is judged before/after EVERY "
        "application (new anomalies are charged to the operator, also when it corrupts its input state); the "
        "returned state is judged again and its objective recomputed independently. 'ops-*' strata drive the "
        "operators directly on hand-built valid states in which multi-vehicle customers sit on several routes. "
        "non-trivial: job shop >=2 operations; VRP run: >=1 destroy removed and >=1 repair inserted a customer; "
        "distinct = distinct input")
ASSUMPTIONS = [
    "job-shop durations are non-negative ints, machine indices non-negative ints, every job has >=1 operation (documented ValueError otherwise)",
    "max_iter >= 0 (a local search of length zero returns the dispatched schedule / the constructed routes)",
    "customer ids are 1..n in list order (solve_vrptw indexes its customer list by id; 0 is the depot), as in the documented example",
    "integer coordinates / demands / times: float error is only that of hypot and a few additions (tolerance 1e-9 relative on times, 1e-11 of the term magnitudes on the objective)",
    "fleets have >=1 vehicle; regret k >= 1; removal degree in (0,1]; n_routes >= 1",
    "hand-built states of the ops-* strata are valid by the oracle's own standard before the first operator runs (checked)",
    "capacity-infeasible insertions and operators mutating (without corrupting) their input are recorded as L2 events, not violations: the statement does not promise them",
]
QUICK_SCALE = 2  # quick-tier multiplier (idle 16-core timing: ~10 s at scale 1)
STRATA = [
    ("js-random", 1200, 12000),
    ("js-gaps-zero-repeat", 900, 9000),
    ("js-contention", 700, 7000),
    ("js-exhaustive", 1, 1),
    ("vrp-single", 200, 2200),
    ("vrp-multi", 400, 4500),
    ("vrp-stress", 300, 3200),
    ("ops-alternating", 1500, 16000),
    ("ops-free", 800, 9000),
]
_OPS_REQUIRED = ["random_removal", "worst_removal", "related_removal", "route_removal", "sync_removal",
                 "greedy_insertion", "regret_insertion", "sync_aware_insertion"]
REQUIRED_EVENTS = {"any": ["js.result.checked", "js.clause.machine-pairs", "js.clause.objective",
                           "vrp.result.checked", "vrp.result.objective.checked", "vrp.op.applications",
                           "vrp.op.destroy.removed-multi-route-customer",
                           "vrp.op.repair.inserted-multi-on-several-routes",
                           "vrp.op.repair.multi-left-unassigned"] + ["vrp.op." + o for o in _OPS_REQUIRED]}

# DESIGN.md lists "capacity-infeasible insertion accepted" among the refutations, but the property statement
# promises only bookkeeping + honest scoring (an overloaded route is scored honestly through capacity_penalty).
# Following DESIGN.md section 4 rule 1 (the statement wins) it is an L2 event `l2.vrp.capacity-insertion`; flip this
# switch to make it a violation of class vrp.op.capacity-insertion.
CAPACITY_INSERTION_DECIDES = False

RULES = ["spt", "lpt", "mwkr", "fifo", "random"]
INF = float("inf")

_V = None
_J = None
_mon = None
_O = None


def setup():
    global _V, _J, _mon, _O
    from vf.instrument import mod
    from vf.monitors import sched as mon
    from vf.oracles import sched as orc

    _V = mod("solvor.vrp")
    _J = mod("solvor.job_shop")
    mon.attach_vrp()
    mon.attach_js()
    _mon = mon
    _O = orc


# ================================================================================ generators

def _gen_js(stratum, rng):
    if stratum == "js-random":
        nj = rng.randint(1, 6)
        nm = rng.randint(1, 4)
        jobs = [[(rng.randrange(nm), rng.choice([0, 1, 1, 2, 3, 5, 8])) for _ in range(rng.randint(1, 5))]
                for _ in range(nj)]
    elif stratum == "js-gaps-zero-repeat":
        nj = rng.randint(1, 5)
        machines = rng.sample([0, 1, 2, 4, 7, 11, 19], rng.randint(1, 3))  # gaps: never-used indices below the max
        jobs = []
        for _ in range(nj):
            job = []
            for _ in range(rng.randint(1, 5)):
                if job and rng.random() < 0.4:
                    m = job[-1][0]  # repeated machine inside a job
                else:
                    m = rng.choice(machines)
                job.append((m, rng.choice([0, 0, 0, 1, 2, 4])))
            jobs.append(job)
        if rng.random() < 0.1:
            jobs = [[(m, 0) for m, _ in job] for job in jobs]  # everything has zero duration
    else:  # js-contention: 1-2 machines, many equal durations, longer jobs first/last
        nj = rng.randint(2, 6)
        nm = rng.randint(1, 2)
        durs = rng.choice([[1], [2, 2, 3], [1, 5], [0, 1, 4], [3, 3, 3, 7]])
        jobs = [[(rng.randrange(nm), rng.choice(durs)) for _ in range(rng.randint(1, 4))] for _ in range(nj)]
    if rng.random() < 0.05:
        # "any machine indices": machines are names, not sizes - a shop whose machines are numbered 10**12, 10**12 + 7
        off = rng.choice([10**9, 10**12, 2**60])
        jobs = [[(off + 7 * m, d) for m, d in job] for job in jobs]
    rule = rng.choice(RULES)
    if rng.random() < 0.15:
        rule = rng.choice([rule.upper(), rule.capitalize()])
    case = {"kind": "js", "jobs": jobs, "rule": rule, "local_search": rng.random() < 0.8,
            "max_iter": rng.choice([1, 2, 5, 20, 60, 200, 1, 2, 5, 20, 60, 200, 0]), "seed": rng.randint(0, 10**6),
            "stop_at": None, "interval": 0}
    if rng.random() < 0.15:
        case["interval"] = rng.randint(1, 3)
        case["stop_at"] = rng.choice([None, 1, 2, 6])
    return case


def _window(rng, style):
    if style == "inf":
        if rng.random() < 0.35:
            return rng.choice([5, 10, 20, 30]), INF  # opens late, never closes: waiting without a deadline
        return 0, INF
    if style == "loose":
        s = rng.choice([0, 0, 5, 10])
        return s, s + rng.choice([20, 40, 100])
    s = rng.randint(0, 25)  # tight
    return s, s + rng.choice([0, 1, 2, 5])


def _customers(rng, n, multi_p, styles, demand_pool, service_pool, req_pool, span=10):
    out = []
    pts = set()
    for i in range(1, n + 1):
        x, y = rng.randint(-span, span), rng.randint(-span, span)
        if rng.random() < 0.1 and out:
            x, y = out[-1][1], out[-1][2]  # co-located customers (zero distance, ties)
        tw0, tw1 = _window(rng, rng.choice(styles))
        req = rng.choice(req_pool) if rng.random() < multi_p else 1
        out.append((i, x, y, rng.choice(demand_pool), tw0, tw1, rng.choice(service_pool), req))
        pts.add((x, y))
    return out


def _gen_vrp(stratum, rng):
    n = rng.randint(2, 10)
    nv = rng.randint(1, 4)
    case = {"kind": "vrp", "as_tuples": False, "vehicles": nv, "capacity": INF, "depot": (0, 0), "weights": {},
            "max_iter": rng.choice([1, 5, 20, 20, 60, 60, 150, 300, 1, 5, 20, 20, 60, 60, 150, 300, 0]), "max_no_improve": 500,
            "seed": rng.randint(0, 10**6), "stop_at": None, "interval": 0}
    if stratum == "vrp-single":
        case["customers"] = _customers(rng, n, 0.0, ["inf", "loose", "loose", "tight"], [0, 1, 2, 5], [0, 0, 1, 3], [1])
        case["capacity"] = rng.choice([5, 10, 20, INF])
    elif stratum == "vrp-multi":
        cs = _customers(rng, n, 0.45, ["inf", "loose", "loose", "tight"], [0, 1, 2, 5], [0, 0, 1, 3], [2, 2, 3])
        if all(c[7] == 1 for c in cs):
            i = rng.randrange(n)
            cs[i] = cs[i][:7] + (2,)
        case["customers"] = cs
        case["capacity"] = rng.choice([5, 10, 20, INF, INF])
        if rng.random() < 0.7:
            case["vehicles"] = nv = rng.randint(2, 4)
    else:  # vrp-stress
        cs = _customers(rng, n, 0.35, ["tight", "tight", "loose", "inf"], [0, 1, 3, 6, 9, 14], [0, 2, 5, 10], [2, 3, 3])
        case["customers"] = cs
        case["capacity"] = rng.choice([3, 6, 10, 12])  # demands 14 (and 9 > 6 ...) can never be loaded
        case["depot"] = rng.choice([(0, 0), (3, -4), (-10, 10)])
        case["as_tuples"] = rng.random() < 0.5
        case["trim"] = rng.random() < 0.7  # tuples without their trailing default fields (3..8 entries)
        if rng.random() < 0.5:
            # Vehicle.id is a label, not an index: route v belongs to the v-th vehicle of the list whatever its id
            ids = list(range(nv))
            r = rng.random()
            if r < 0.3:
                rng.shuffle(ids)
            elif r < 0.5:
                ids = rng.sample(range(0, nv + 4), nv)
            case["vehicles"] = [(ids[i], rng.choice([3, 6, 10, INF])) for i in range(nv)]
        if rng.random() < 0.5:
            case["weights"] = {"distance_weight": rng.choice([1.0, 0.5, 2.0]), "vehicle_weight": rng.choice([0.0, 10.0, 50.0]),
                               "tw_penalty": rng.choice([1000.0, 1.0, 0.0]), "capacity_penalty": rng.choice([1000.0, 10.0]),
                               "sync_penalty": rng.choice([10000.0, 1.0, 100.0])}
        if rng.random() < 0.3:
            case["max_no_improve"] = rng.choice([1, 5, 30])
    if stratum != "vrp-stress" and rng.random() < 0.2:
        case["as_tuples"] = True
        case["trim"] = rng.random() < 0.7
    if rng.random() < (0.4 if stratum == "vrp-stress" else 0.2):  # early stop through on_progress
        case["interval"] = rng.randint(1, 5)
        case["stop_at"] = rng.choice([None, 1, 1, 2, 3, 5, 10])
        case["max_iter"] = max(case["max_iter"], 20)
    if rng.random() < 0.12:
        # customers standing exactly at the depot whose load fills a vehicle: used vehicles with a route of length 0
        # (a vehicle is "used" when it serves someone, not when it drives), with the vehicle term switched on
        cs = list(case["customers"])
        dx, dy = case["depot"]
        cap = case["capacity"] if case["capacity"] != INF else 10
        case["capacity"] = cap
        for i in rng.sample(range(len(cs)), min(len(cs), rng.randint(1, 2))):
            c = cs[i]
            cs[i] = (c[0], dx, dy, cap, 0, INF, c[6], 1)
        case["customers"] = cs
        if isinstance(case["vehicles"], int):
            case["vehicles"] = max(case["vehicles"], 3)
        w = dict(case.get("weights") or {})
        w["vehicle_weight"] = rng.choice([10.0, 50.0, 100.0])
        case["weights"] = w
    return case


DESTROY_OPS = ["random_removal", "worst_removal", "related_removal", "route_removal", "sync_removal"]
REPAIR_OPS = ["greedy_insertion", "regret_insertion", "sync_aware_insertion"]


def _op_step(rng, name, nv):
    if name in ("random_removal", "worst_removal", "related_removal"):
        args = rng.choice([(), (0.1,), (0.2,), (0.3,), (0.5,), (1.0,)])
    elif name == "route_removal":
        args = rng.choice([(), (1,), (2,), (nv,)])
    elif name == "regret_insertion":
        args = rng.choice([(), (1,), (2,), (3,), (4,)])
    else:
        args = ()
    return (name, args, rng.randint(0, 10**6))


def _gen_ops(stratum, rng):
    n = rng.randint(2, 9)
    nv = rng.choice([1, 2, 2, 3, 3, 4])
    cs = _customers(rng, n, 0.5, ["inf", "loose", "loose", "tight"], [0, 1, 2, 4], [0, 0, 1, 3], [2, 2, 3])
    if nv >= 2 and all(c[7] == 1 for c in cs):
        i = rng.randrange(n)
        cs[i] = cs[i][:7] + (2,)
    routes = [[] for _ in range(nv)]
    unassigned = []
    for c in cs:
        cid, req = c[0], c[7]
        if rng.random() < 0.2:
            unassigned.append(cid)
            continue
        if req == 1:
            k = 1
        else:
            k = rng.randint(1, min(req, nv))
            if rng.random() < 0.6:
                k = min(req, nv)
            if rng.random() < 0.05:
                k = rng.randint(1, nv)  # more routes than required: still a valid state
        for v in rng.sample(range(nv), k):
            routes[v].insert(rng.randint(0, len(routes[v])), cid)
    dem = {c[0]: c[3] for c in cs}
    loads = [sum(dem[c] for c in r) for r in routes]
    style = rng.random()
    if style < 0.3:
        caps = [INF] * nv
    elif style < 0.85:
        caps = [ld + rng.choice([0, 0, 1, 3, 8]) for ld in loads]  # every route within capacity (reachable)
    else:
        caps = [max(1, ld - rng.choice([0, 1, 2])) for ld in loads]  # some routes overloaded (valid, penalised)
    steps = []
    if stratum == "ops-alternating":
        for _ in range(rng.randint(2, 8)):
            steps.append(_op_step(rng, rng.choice(DESTROY_OPS), nv))
            steps.append(_op_step(rng, rng.choice(REPAIR_OPS), nv))
        if rng.random() < 0.5:
            steps = steps[1:] if unassigned else steps  # start by repairing the hand-built partial state
    else:
        for _ in range(rng.randint(3, 16)):
            steps.append(_op_step(rng, rng.choice(DESTROY_OPS + REPAIR_OPS), nv))
    vids = list(range(nv))
    if rng.random() < 0.3:
        rng.shuffle(vids)
    return {"kind": "ops", "customers": cs, "vehicles": [(vids[i], caps[i]) for i in range(nv)], "routes": routes,
            "unassigned": sorted(unassigned), "steps": steps}


def gen(stratum, rng, tier):
    if stratum == "js-exhaustive":
        return {"kind": "js-exh", "max_iter": 12, "rules": RULES if tier == "thorough" else ["spt", "lpt", "random"]}
    if stratum.startswith("js-"):
        return _gen_js(stratum, rng)
    if stratum.startswith("vrp-"):
        return _gen_vrp(stratum, rng)
    if stratum.startswith("ops-"):
        return _gen_ops(stratum, rng)
    raise ValueError(stratum)


# ================================================================================ execution

class _Stopper:
    def __init__(self, stop_at):
        self.stop_at = stop_at
        self.calls = 0

    def __call__(self, progress):
        self.calls += 1
        return self.stop_at is not None and self.calls >= self.stop_at


def _drain(obs):
    cap_log = list(_mon.CAP_LOG)
    log, count, info, trace = _mon.drain()
    if CAPACITY_INSERTION_DECIDES:
        for detail in cap_log:
            obs.violate("vrp.op.capacity-insertion", detail)
    for k, v in count.items():
        obs.event(k, v)
    for k, v in info.items():
        obs.event(k, v)
        obs.mech.add(k)
    for cls, detail in log:
        if cls == "monitor-error":
            obs.inconc("operator monitor failed: " + detail)
        else:
            obs.violate("vrp.op." + cls, detail)
    return count, trace


# ---- job shop

def _judge_js(obs, jobs, res, tag=""):
    sol = getattr(res, "solution", None)
    n_ops = sum(len(j) for j in jobs)
    bad = _O.check_schedule(jobs, sol, getattr(res, "objective", None), want_objective=True)
    obs.event("js.result.checked")
    obs.event("js.clause.ops-present+duration", n_ops)
    obs.event("js.clause.job-order", sum(len(j) - 1 for j in jobs))
    per_m = {}
    for j in jobs:
        for m, _ in j:
            per_m[m] = per_m.get(m, 0) + 1
    obs.event("js.clause.machine-pairs", sum(k * (k - 1) // 2 for k in per_m.values()))
    obs.event("js.clause.objective")
    for cls, detail in bad:
        obs.violate("js." + cls, tag + detail)
    if isinstance(sol, dict) and _O.negative_starts(jobs, sol):
        obs.event("l2.js.negative-start")
        obs.mech.add("l2.js.negative-start")
    return not bad


def _run_js(case, obs):
    from vf.common import call, is_crash, status_name

    jobs = [[tuple(op) for op in job] for job in case["jobs"]]
    kw = {"rule": case["rule"], "local_search": case["local_search"], "max_iter": case["max_iter"], "seed": case["seed"]}
    if case.get("interval"):
        kw["on_progress"] = _Stopper(case.get("stop_at"))
        kw["progress_interval"] = case["interval"]
    res = call(obs, _J.solve_job_shop, jobs, what="solve_job_shop", budget=20_000_000, **kw)
    if is_crash(res):
        obs.outcome("js:" + res.kind)
        return
    obs.outcome("js:" + status_name(res))
    _judge_js(obs, jobs, res)
    obs.nontrivial = sum(len(j) for j in jobs) >= 2
    if getattr(res, "iterations", 0) and case["local_search"]:
        obs.event("js.local-search-ran")


def _run_js_exh(case, obs):
    from vf.common import call, is_crash

    ops = [(m, d) for m in (0, 1) for d in (0, 1, 2)]
    one = [[a] for a in ops] + [[a, b] for a in ops for b in ops]
    cnt = 0
    for njobs in (1, 2):
        for combo in product(one, repeat=njobs):
            jobs = [list(j) for j in combo]
            for rule in case["rules"]:
                for ls in (False, True):
                    res = call(obs, _J.solve_job_shop, jobs, rule=rule, local_search=ls, max_iter=case["max_iter"], seed=cnt,
                               what="solve_job_shop", budget=5_000_000)
                    cnt += 1
                    if is_crash(res):
                        obs.violations[-1] = (obs.violations[-1][0], f"jobs={jobs} rule={rule} ls={ls}: " + obs.violations[-1][1])
                        return
                    if not _judge_js(obs, jobs, res, tag=f"jobs={jobs} rule={rule} local_search={ls} seed={cnt - 1}: "):
                        return
    obs.event("js.exhaustive.runs", cnt)
    obs.outcome("js:exhaustive")
    obs.nontrivial = True


# ---- VRP through solve_vrptw

_TUPLE_DEFAULTS = (None, None, None, 0.0, 0.0, INF, 0.0, 1)


def _as_tuple(c, trim):
    c = tuple(c)
    if trim:
        while len(c) > 3 and c[-1] == _TUPLE_DEFAULTS[len(c) - 1]:
            c = c[:-1]
    return c


def _judge_state(obs, snap, where):
    """Bookkeeping of a returned state (L1).  Returns the anomaly dict."""
    an = _O.anomalies(snap)
    obs.event("vrp.result.checked")
    obs.event("vrp.result.customers", snap.n)
    obs.event("vrp.result.routes-arrivals", len(snap.routes))
    for key, d in an.items():
        obs.violate("vrp.result." + _O.KEY_CLASS[key[0]], f"{where}: {d}; state {snap.digest()}")
    return an


def _run_vrp(case, obs):
    from vf.common import call, is_crash, status_name

    V = _V
    cs = case["customers"]
    customers = [_as_tuple(c, case.get("trim")) for c in cs] if case["as_tuples"] else [V.Customer(*c) for c in cs]
    if isinstance(case["vehicles"], int):
        vehicles = case["vehicles"]
        kw = {"vehicle_capacity": case["capacity"]}
    else:
        vehicles = [V.Vehicle(i, cap) for i, cap in case["vehicles"]]
        kw = {}
    kw.update(case["weights"])
    kw.update(max_iter=case["max_iter"], max_no_improve=case["max_no_improve"], seed=case["seed"])
    if case.get("interval"):
        kw["on_progress"] = _Stopper(case.get("stop_at"))
        kw["progress_interval"] = case["interval"]
    _mon.reset()
    res = call(obs, V.solve_vrptw, customers, vehicles, tuple(case["depot"]), what="solve_vrptw", budget=150_000_000, **kw)
    count, trace = _drain(obs)
    if is_crash(res):
        obs.outcome("vrp:" + res.kind)
        return
    obs.outcome("vrp:" + status_name(res))
    if not count.get("vrp.op.applications"):
        obs.inconc("solve_vrptw returned without a single monitored operator application (monitor bypassed?)")
    state = res.solution
    try:
        snap = _O.snapshot(state)
    except Exception as e:
        obs.violate("vrp.result.shape", f"solution is {type(state).__name__}: {e!r}")
        return
    if snap.n != len(cs):
        obs.violate("vrp.result.shape", f"{len(cs)} customers given, state knows {snap.n}")
        return
    # judge against the problem the caller stated, not against what the state believes the problem is
    given = [(case["depot"][0], case["depot"][1], 0.0, 0.0, INF, 0.0, 1)] + [tuple(c[1:]) for c in cs]
    caps = [case["capacity"]] * case["vehicles"] if isinstance(case["vehicles"], int) else [cap for _, cap in case["vehicles"]]
    if [tuple(c) for c in snap.cust] != given or snap.caps != caps:
        obs.event("l2.vrp.state-problem-data-differs")
        obs.mech.add("l2.vrp.state-problem-data-differs")
    snap.cust, snap.caps = given, caps
    an = _judge_state(obs, snap, "returned state")
    if not any(k[0] in ("alien", "shape", "depot") for k in an):
        exp, mag, parts = _O.objective(snap, case["weights"])
        obs.event("vrp.result.objective.checked")
        got = res.objective
        if not (abs(got - exp) <= 1e-11 * (1.0 + mag)):
            obs.violate("vrp.result.objective", f"objective {got!r}, weighted sum of the returned state {exp!r} "
                                                f"(parts {parts}, weights {case['weights'] or 'default'}); state {snap.digest()}")
        if kw.get("on_progress") is not None and kw["on_progress"].stop_at is not None and kw["on_progress"].calls >= kw["on_progress"].stop_at:
            obs.event("vrp.result.early-stopped")
        if case["as_tuples"]:
            obs.event("vrp.result.tuple-input")
            if any(len(c) < 8 for c in customers):
                obs.event("vrp.result.short-tuple-input")
        if parts["unassigned"]:
            obs.event("vrp.result.with-unassigned")
        if parts["sync"]:
            obs.event("vrp.result.with-sync-violation")
        if parts["tw"]:
            obs.event("vrp.result.with-tw-violation")
        if any(c[7] > 1 and sum(1 for r in snap.routes if c[0] in r) > 1 for c in cs):
            obs.event("vrp.result.multi-on-several-routes")
    obs.nontrivial = bool(count.get("vrp.op.destroy.removed-something") and count.get("vrp.op.repair.inserted-something"))


# ---- operators driven directly

def _build_state(case):
    V = _V
    customers = [V.Customer(0, 0, 0)] + [V.Customer(*c) for c in case["customers"]]
    vehicles = [V.Vehicle(i, cap) for i, cap in case["vehicles"]]
    state = V.VRPState.from_problem(customers, vehicles)
    state.routes = [list(r) for r in case["routes"]]
    state.unassigned = set(case["unassigned"])
    snap = _O.snapshot(state)
    state.arrival_times = [_O.arrivals(snap, r) for r in snap.routes]  # consistent by the oracle's standard
    return state


def _drive(case, obs):
    from random import Random

    state = _build_state(case)
    pre = _O.anomalies(_O.snapshot(state))
    if pre:
        obs.inconc(f"generator built an invalid start state: {sorted(pre.values())[:2]}")
        return 0
    applied = 0
    for name, args, seed in case["steps"]:
        op = getattr(_V, name)  # module global = the monitored wrapper, as ALNS sees it
        state = op(state, Random(seed), *args)
        applied += 1
    # the last state once more at L1 strength
    snap = _O.snapshot(state)
    for key, d in _O.anomalies(snap).items():
        obs.violate("vrp.result." + _O.KEY_CLASS[key[0]], f"state after the operator history: {d}; {snap.digest()}")
    obs.event("vrp.result.checked")
    # and honest scoring of that state by the exported objective function
    exp, mag, parts = _O.objective(snap, None)
    got = _V.vrp_objective(state)
    obs.event("vrp.result.objective.checked")
    if not (abs(got - exp) <= 1e-11 * (1.0 + mag)):
        obs.violate("vrp.result.objective", f"vrp_objective(state)={got!r}, documented weighted sum {exp!r} (parts {parts}); {snap.digest()}")
    return applied


def _run_ops(case, obs):
    from vf.common import call, is_crash

    _mon.reset()
    r = call(obs, _drive, case, obs, what="operator history", budget=30_000_000)
    count, trace = _drain(obs)
    if is_crash(r):
        obs.violations[-1] = (obs.violations[-1][0], obs.violations[-1][1] + f"\nlast applications: {trace[-3:]}")
        obs.outcome("ops:" + r.kind)
        return
    obs.outcome("ops:history")
    obs.event("vrp.ops.direct-applications", r or 0)
    obs.nontrivial = bool(count.get("vrp.op.destroy.removed-something") and count.get("vrp.op.repair.inserted-something"))


def run(case, obs):
    kind = case["kind"]
    if kind == "js":
        _mon.reset()
        _run_js(case, obs)
        _drain(obs)
    elif kind == "js-exh":
        _mon.reset()
        _run_js_exh(case, obs)
        _drain(obs)
    elif kind == "vrp":
        _run_vrp(case, obs)
    elif kind == "ops":
        _run_ops(case, obs)
    else:
        raise ValueError(kind)


# ================================================================================ shrinking

def _drop_customer(cs, idx):
    """Remove customer at list position idx and renumber ids to 1..n-1.  Returns (customers, id map)."""
    keep = [c for i, c in enumerate(cs) if i != idx]
    idmap = {c[0]: i + 1 for i, c in enumerate(keep)}
    return [(idmap[c[0]],) + tuple(c[1:]) for c in keep], idmap


def shrink(case):
    kind = case["kind"]
    if kind == "js":
        jobs = case["jobs"]
        for j in range(len(jobs)):
            if len(jobs) > 1:
                yield dict(case, jobs=jobs[:j] + jobs[j + 1:])
        for j in range(len(jobs)):
            for k in range(len(jobs[j])):
                if len(jobs[j]) > 1:
                    yield dict(case, jobs=jobs[:j] + [jobs[j][:k] + jobs[j][k + 1:]] + jobs[j + 1:])
        if case["max_iter"] > 1:
            yield dict(case, max_iter=case["max_iter"] // 2)
        if case.get("interval"):
            yield dict(case, interval=0, stop_at=None)
        for j in range(len(jobs)):
            for k in range(len(jobs[j])):
                m, d = jobs[j][k]
                if d > 1:
                    yield dict(case, jobs=jobs[:j] + [jobs[j][:k] + [(m, d - 1)] + jobs[j][k + 1:]] + jobs[j + 1:])
    elif kind == "vrp":
        cs = case["customers"]
        for i in range(len(cs)):
            if len(cs) > 1:
                yield dict(case, customers=_drop_customer(cs, i)[0])
        if case["max_iter"] > 1:
            yield dict(case, max_iter=case["max_iter"] // 2)
            yield dict(case, max_iter=case["max_iter"] - 1)
        if isinstance(case["vehicles"], int) and case["vehicles"] > 1:
            yield dict(case, vehicles=case["vehicles"] - 1)
        if case["weights"]:
            yield dict(case, weights={})
        if case.get("interval"):
            yield dict(case, interval=0, stop_at=None)
        if case["as_tuples"]:
            yield dict(case, as_tuples=False)
        for i, c in enumerate(cs):  # simplify one customer: no window, no service, no demand
            simple = (c[0], c[1], c[2], 0, 0, INF, 0, c[7])
            if tuple(c) != simple:
                yield dict(case, customers=cs[:i] + [simple] + cs[i + 1:])
    elif kind == "ops":
        steps = case["steps"]
        for i in range(len(steps) - 1, -1, -1):
            if len(steps) > 1:
                yield dict(case, steps=steps[:i] + steps[i + 1:])
        cs = case["customers"]
        for i in range(len(cs)):
            if len(cs) > 1:
                new, idmap = _drop_customer(cs, i)
                yield dict(case, customers=new,
                           routes=[[idmap[c] for c in r if c in idmap] for r in case["routes"]],
                           unassigned=sorted(idmap[c] for c in case["unassigned"] if c in idmap))
        for i, c in enumerate(cs):
            simple = (c[0], c[1], c[2], 0, 0, INF, 0, c[7])
            if tuple(c) != simple:
                yield dict(case, customers=cs[:i] + [simple] + cs[i + 1:])
