"""C19 — search heuristics return the best point they evaluated, faithfully, reproducibly."""

ID = "C19"
RULE = ("one case = one solver configuration (solver, objective family/scale/offset, start point(s) or bounds, "
        "callbacks with their own seeded PRNG, seed, iteration limit, acceptance rule / strategy / population "
        "options, minimise or maximise, optional on_progress stop).  First-group solvers are run three times: on f, "
        "on f again (reproducibility) and on -f with the opposite `minimize` (mirror); every run's objective is a "
        "recording proxy (argument deep-copied, value, call count) and is judged by: objective == f(returned "
        "solution) exactly, not worse than any recorded value nor than the start point(s), evaluations == number "
        "of calls, bounds.  powell / bfgs / lbfgs: objective == f(returned x) (1e-12 rel) and reproducibility.  "
        "A case is non-trivial when the solver made >= 2 objective calls; distinct = distinct configuration")
ASSUMPTIONS = [
    "objective functions are deterministic, finite, side-effect free; callbacks return new objects",
    "max_iter >= 0 (3 % of the cases of every solver with an iteration loop ask for zero iterations)",
    "tabu cooldown >= 1; evolve population non-empty; bayesian_opt n_initial >= 1 and lo < hi; DE strategies "
    "'x/2' only with populations large enough for four distinct difference vectors",
    "dyadic bounds and start points so that clipping and rng.uniform are exact at the bounds",
    "lns/alns acceptance rules: the three documented names and three caller-supplied callables (reject small improvements / reject everything / accept on odd iterations)",
    "DE/PSO start points: at most population-size many; the start-point relation is applied to in-bounds ones",
    "bfgs/lbfgs: smooth objectives with their analytic gradient, objective_fn always given",
]
QUICK_SCALE = 2.5  # quick-tier multiplier (idle 16-core timing: ~10 s at scale 1)
STRATA = [
    ("anneal", 2000, 40000),
    ("tabu", 1500, 30000),
    ("lns", 1500, 30000),
    ("alns", 1500, 30000),
    ("evolve", 1500, 30000),
    ("de", 1200, 24000),
    ("pso", 1200, 24000),
    ("nelder-mead", 2400, 48000),
    ("bayes", 150, 3000),
    ("powell", 400, 8000),
    ("bfgs", 800, 16000),
    ("tsp", 900, 18000),
]
REQUIRED_EVENTS = {"any": ["rel.objective-at-solution", "rel.best-of-evaluated", "rel.start-point", "rel.evaluations",
                           "rel.bounds", "rel.mirror", "rel.reproducible", "rel.objective-recompute",
                           "shape.early-stop-fired", "shape.last-candidate-worse-than-best", "tsp.tabu-client-run"]}

# F_ref: largest fuel of any call on the unchanged tree = 4e4 (quick), 1.4e5 (thorough); budget = max(3M, 50 x F_ref)
BUDGET = 7_000_000

_m = {}
_tsp_ctx = {"on": False, "runs": None}


def setup():
    from vf.instrument import mod, replace

    for name in ("anneal", "tabu", "lns", "genetic", "differential_evolution", "particle_swarm", "nelder_mead",
                 "bayesian", "powell", "bfgs"):
        _m[name] = mod("solvor." + name)

    # solve_tsp is a client of tabu_search: observe the inner call (start tour, objective proxy, result)
    def factory(orig):
        def tabu_search(initial, objective_fn, neighbors, **kw):
            if not _tsp_ctx["on"]:
                return orig(initial, objective_fn, neighbors, **kw)
            from vf.oracles.heur import Recorder

            rec = Recorder(objective_fn)
            res = orig(initial, rec, neighbors, **kw)
            _tsp_ctx["runs"].append((list(initial), rec, res, kw.get("minimize", True)))
            return res

        return tabu_search

    replace("solvor.tabu", "tabu_search", factory)


# ------------------------------------------------------------------------------------------ generators

_ITERS = [1, 1, 2, 3, 5, 8, 13, 30, 60, 120, 300]
_ZERO_ITER_STRATA = ("anneal", "tabu", "lns", "alns", "evolve", "de", "pso", "nelder-mead", "powell", "tsp")


def _dy(rng, lo, hi, q=4):
    return rng.randint(int(lo * q), int(hi * q)) / q


def _vec_obj(rng, d, fams=None):
    from vf.oracles.heur import VEC_FAMILIES

    fam = rng.choice(fams or [f for f in VEC_FAMILIES if f != "const"] * 3 + ["const"])
    if fam == "linear":
        c = [rng.choice([-2.0, -1.0, -0.5, 0.0, 0.5, 1.0, 2.0]) for _ in range(d)]
    else:
        c = [_dy(rng, -4, 4) for _ in range(d)]
    a, b = rng.choice([1, 1, 1, 2, 0.5, 3, -1, -0.5]), rng.choice([0, 0, -7, 2.5, 100])
    if rng.random() < 0.12:
        # objectives in tiny units (the whole landscape within 1e-11): "better" is an order relation, no absolute
        # epsilon may decide whether an improvement counts
        a, b = a * 2.0 ** rng.choice([-44, -50, -60]), 0
    return {"fam": fam, "a": a, "b": b, "c": c}


def _perm_obj(rng, n):
    from vf.oracles.heur import PERM_FAMILIES

    sym = rng.random() < 0.5
    m = [[0] * n for _ in range(n)]
    for i in range(n):
        for j in range(n):
            if i != j:
                m[i][j] = m[j][i] if (sym and j < i) else rng.randint(1, 9)
    a, b = rng.choice([1, 1, 2, -1]), rng.choice([0, 0, 5])
    if rng.random() < 0.12:
        a, b = a * 2.0 ** rng.choice([-44, -50, -60]), 0
    return {"fam": rng.choice(PERM_FAMILIES), "a": a, "b": b, "c": m}


def _stop(rng, max_iter):
    if rng.random() < 0.4:
        return {"at": rng.randint(1, max(1, min(max_iter, 40))), "interval": rng.choice([1, 1, 2, 3]),
                "quiet": rng.choice([None, False])}
    return None


def _base(rng, solver):
    # seed 0 (falsy!) and other small seeds are fixed seeds like any other: a quarter of the cases use them
    seed = rng.choice([0, 0, 1, 2, 7]) if rng.random() < 0.25 else rng.randint(0, 10**6)
    return {"solver": solver, "minimize": rng.random() < 0.5, "seed": seed,
            "cbseed": rng.randint(0, 10**6)}


def _bounds(rng, d, allow_degenerate=False):
    out = []
    for _ in range(d):
        lo = _dy(rng, -4, 3)
        hi = lo + rng.choice([0.5, 1.0, 2.0, 3.0, 6.0])
        if allow_degenerate and rng.random() < 0.04:
            hi = lo
        out.append((lo, hi))
    return out


def _init_points(rng, bounds, kmax):
    """None | in-bounds points | points partly outside the bounds."""
    r = rng.random()
    if r < 0.4 or kmax == 0:
        return None
    k = rng.randint(1, kmax)
    pts = []
    outside = r > 0.7
    for _ in range(k):
        p = []
        for lo, hi in bounds:
            if outside and rng.random() < 0.6:
                p.append(rng.choice([lo - _dy(rng, 0.25, 3), hi + _dy(rng, 0.25, 3)]))
            else:
                p.append(lo + (hi - lo) * rng.randint(0, 8) / 8)
        pts.append(p)
    return pts


def gen(stratum, rng, tier):
    c = _base(rng, stratum)
    if stratum in ("anneal", "tabu", "lns", "alns", "evolve"):
        kind = "perm" if rng.random() < 0.4 else "vec"
        if stratum in ("anneal", "tabu") and rng.random() < 0.12:
            kind = "scalar"  # solutions are plain ints walking through 0: a solution is a value, not a truth value
        c["kind"] = kind
        if kind == "scalar":
            c["obj"] = dict(_vec_obj(rng, 1, fams=["plateau", "steps", "sphere", "linear", "disc", "halfgrid"]), scalar=True)
            c["x0"] = rng.choice([0, 1, -1, 2, -2, 3])
        elif kind == "vec":
            d = rng.randint(1, 3)
            c["obj"] = _vec_obj(rng, d)
            c["x0"] = [_dy(rng, -3, 3) for _ in range(d)]
        else:
            n = rng.randint(4, 7)
            c["obj"] = _perm_obj(rng, n)
            p = list(range(n))
            rng.shuffle(p)
            c["x0"] = p
    if stratum == "anneal":
        mi = rng.choice(_ITERS + ([1000, 3000] if tier == "thorough" else []))
        c["opts"] = {"max_iter": mi, "temperature": rng.choice([0.01, 0.5, 10.0, 1000.0]),
                     "cooling": rng.choice([0.9995, 0.9995, 0.99, 0.9, 0.5, ("linear", 1e-8), ("linear", 0.25), ("log", 1.0),
                                            ("exp", 0.99), ("exp", 0.9), ("exp", 0.9995)]),
                     "min_temp": rng.choice([1e-8, 1e-8, 1e-3])}
        c["step"] = rng.choice([0.25, 0.5, 1.0])
        c["grid"] = rng.random() < 0.5
        c["stop"] = _stop(rng, mi)
    elif stratum == "tabu":
        mi = rng.choice([1, 1, 2, 3, 5, 8, 13, 30, 60])
        c["opts"] = {"max_iter": mi, "cooldown": rng.randint(1, 6), "max_no_improve": rng.choice([1, 2, 5, 100, 100])}
        c["step"] = rng.choice([0.25, 0.5, 1.0])
        c["empty_after"] = rng.randint(1, 6) if rng.random() < 0.1 else None
        c["as_iter"] = rng.random() < 0.3
        c["stop"] = _stop(rng, mi)
    elif stratum in ("lns", "alns"):
        mi = rng.choice([1, 1, 2, 3, 5, 8, 13, 30, 60, 150] + ([600, 1500] if tier == "thorough" else []))
        c["opts"] = {"max_iter": mi, "accept": rng.choice(["improving", "accept_all", "simulated_annealing"]),
                     "start_temp": rng.choice([0.5, 5.0, 100.0]), "cooling_rate": rng.choice([0.9995, 0.9, 0.5]),
                     "max_no_improve": rng.choice([1, 3, 20, 100, 1000])}
        c["stop"] = _stop(rng, mi)
        if rng.random() < 0.15:
            c["opts"]["accept"] = rng.choice(["custom:margin", "custom:never", "custom:odd"])
        if stratum == "lns":
            c["destroy"] = [rng.randint(1, 2 if c["kind"] == "vec" else 3)]
            c["repair"] = [rng.choice(["uniform", "grid", "nudge"] if c["kind"] == "vec" else ["random", "greedy"])]
        else:
            c["destroy"] = [rng.randint(1, 2 if c["kind"] == "vec" else 3) for _ in range(rng.randint(1, 3))]
            c["repair"] = [rng.choice(["uniform", "grid", "nudge"] if c["kind"] == "vec" else ["random", "greedy"])
                           for _ in range(rng.randint(1, 2))]
            c["opts"].update({"segment_size": rng.choice([1, 3, 10, 100]), "reaction_factor": rng.choice([0.1, 0.5, 1.0])})
            if rng.random() < 0.3:
                c["opts"].update({"score_best": 5.0, "score_better": 1.0, "score_accept": 0.5})
            if rng.random() < 0.3:
                c["opts"]["destroy_weights"] = [rng.choice([0.5, 1.0, 4.0]) for _ in c["destroy"]]
            if rng.random() < 0.3:
                c["opts"]["repair_weights"] = [rng.choice([0.5, 1.0, 4.0]) for _ in c["repair"]]
    elif stratum == "evolve":
        mi = rng.choice([1, 1, 2, 3, 5, 8, 13, 20])
        k = rng.randint(1, 8)
        pop = []
        for _ in range(k):
            if c["kind"] == "vec":
                pop.append([_dy(rng, -3, 3) for _ in c["x0"]])
            else:
                p = list(c["x0"])
                rng.shuffle(p)
                pop.append(p)
        if k >= 2 and rng.random() < 0.2:
            pop[-1] = list(pop[0])  # duplicate individual
        c["pop"] = pop
        del c["x0"]
        c["opts"] = {"max_iter": mi, "elite_size": rng.choice([0, 0, 1, 2, 2, 3, 10]),
                     "mutation_rate": rng.choice([0.0, 0.1, 0.5, 1.0]), "adaptive_mutation": rng.random() < 0.4,
                     "tournament_k": rng.randint(1, 4)}
        c["step"] = rng.choice([0.25, 0.5, 1.0])
        c["stop"] = _stop(rng, mi)
    elif stratum in ("de", "pso"):
        d = rng.randint(1, 3)
        c["bounds"] = _bounds(rng, d, allow_degenerate=True)
        fams = ["linear", "linear", "sphere", "sphere", "rugged", "plateau", "steps", "rastrigin", "disc", "halfgrid", "const"]
        c["obj"] = _vec_obj(rng, d, fams)
        mi = rng.choice([1, 1, 2, 3, 5, 8, 13, 20])
        if stratum == "de":
            ps = rng.choice([1, 4, 5, 6, 7, 8])
            strat = rng.choice(["rand/1", "rand/1", "best/1", "best/1", "rand/2", "best/2", "RAND/1"])
            if strat == "rand/2":
                ps = max(ps, 6)
            if strat == "best/2":
                ps = max(ps, 5)
            c["opts"] = {"max_iter": mi, "population_size": ps, "mutation": rng.choice([0.5, 0.8, 1.5]),
                         "crossover": rng.choice([0.0, 0.1, 0.7, 1.0]), "strategy": strat, "tol": rng.choice([1e-8, 1e-8, 0.0, 1e-2])}
            c["init"] = _init_points(rng, c["bounds"], max(ps, 4) + rng.choice([0, 0, 0, 3]))  # sometimes more than fit
        else:
            npart = rng.randint(1, 8)
            c["opts"] = {"max_iter": mi, "n_particles": npart, "inertia": rng.choice([0.7, 0.9, 0.4]),
                         "inertia_decay": rng.choice([None, None, 0.4]), "cognitive": rng.choice([1.5, 0.5, 2.0]),
                         "social": rng.choice([1.5, 0.5, 2.0]), "v_max": rng.choice([None, None, 0.5, 4.0])}
            c["init"] = _init_points(rng, c["bounds"], npart + rng.choice([0, 0, 0, 3]))
        c["stop"] = _stop(rng, mi)
    elif stratum == "nelder-mead":
        d = rng.randint(1, 3)
        c["obj"] = _vec_obj(rng, d)
        c["x0"] = [rng.choice([0.0, _dy(rng, -3, 3), _dy(rng, -3, 3)]) for _ in range(d)]
        mi = rng.choice([1, 2, 3, 5, 8, 13, 30, 80])
        c["opts"] = {"max_iter": mi, "tol": rng.choice([1e-6, 1e-6, 0.0, 1e-2]), "adaptive": rng.random() < 0.3,
                     "initial_step": rng.choice([0.05, 0.5, 1.0])}
        c["stop"] = _stop(rng, mi)
        if c["stop"] is None and rng.random() < 0.3:  # early stop is where the vertex ordering matters
            c["stop"] = {"at": rng.randint(1, mi), "interval": 1, "quiet": None}
    elif stratum == "bayes":
        d = rng.randint(1, 2)
        c["bounds"] = _bounds(rng, d)
        c["obj"] = _vec_obj(rng, d, ["linear", "sphere", "rugged", "plateau", "rastrigin", "disc"])
        mi = rng.randint(2, 9)
        c["opts"] = {"max_iter": mi, "n_initial": rng.choice([1, 2, 3, 4, mi + 1]), "acquisition": rng.choice(["ei", "ucb"]),
                     "kappa": rng.choice([2.0, 0.5]), "acq_restarts": rng.randint(1, 3)}
        c["stop"] = _stop(rng, mi)
    elif stratum == "powell":
        d = rng.randint(1, 3)
        c["obj"] = _vec_obj(rng, d)
        c["x0"] = [_dy(rng, -3, 3) for _ in range(d)]
        c["bounds"] = _bounds(rng, d) if rng.random() < 0.5 else None
        mi = rng.randint(1, 4)
        c["opts"] = {"max_iter": mi, "tol": rng.choice([1e-6, 0.0, 1e-2])}
        c["stop"] = _stop(rng, mi)
    elif stratum == "bfgs":
        d = rng.randint(1, 4)
        fam = rng.choice(["ellipse", "quadcos", "rosen"] if d >= 2 else ["ellipse", "quadcos"])
        c["sm"] = {"fam": fam, "c": [_dy(rng, -2, 2) for _ in range(d)], "w": [rng.choice([0.5, 1.0, 2.0, 8.0]) for _ in range(d)]}
        c["x0"] = [_dy(rng, -2, 2) for _ in range(d)]
        c["variant"] = rng.choice(["bfgs", "lbfgs"])
        mi = rng.choice([1, 2, 3, 5, 10, 30])
        c["opts"] = {"max_iter": mi, "tol": rng.choice([1e-6, 1e-2, 1e-9])}
        if c["variant"] == "lbfgs":
            c["opts"]["m"] = rng.choice([1, 3, 10])
        c["stop"] = _stop(rng, mi)
    elif stratum == "tsp":
        n = rng.choice([1, 2, 3, 4, 4, 5, 5, 6, 6, 7, 8])
        sym = rng.random() < 0.5
        m = [[0] * n for _ in range(n)]
        for i in range(n):
            for j in range(n):
                if i != j:
                    m[i][j] = m[j][i] if (sym and j < i) else rng.randint(1, 9)
        c["matrix"] = m
        mi = rng.choice([1, 2, 3, 5, 13, 30, 60])
        c["opts"] = {"max_iter": mi, "cooldown": rng.randint(1, 8), "max_no_improve": rng.choice([1, 3, 10, 100])}
        c["stop"] = _stop(rng, mi)
    else:
        raise ValueError(stratum)
    if stratum in _ZERO_ITER_STRATA and rng.random() < 0.03:
        # an iteration limit of zero: "do not search, give me the start point back" - the relation is the same
        c["opts"]["max_iter"] = 0
        c["stop"] = None
    return c


def shrink(case):
    opts = case.get("opts", {})
    mi = opts.get("max_iter")
    if case.get("stop") is not None:
        c2 = dict(case)
        c2["stop"] = None
        yield c2
        at = case["stop"]["at"]
        for a in (1, at // 2, at - 1):
            if 1 <= a < at:
                c2 = dict(case)
                c2["stop"] = dict(case["stop"], at=a)
                yield c2
    if mi:
        for v in (1, mi // 2, mi - 1):
            if 1 <= v < mi:
                c2 = dict(case)
                c2["opts"] = dict(opts, max_iter=v)
                yield c2
    for key in ("pop", "init"):
        seq = case.get(key)
        if seq and len(seq) > 1:
            for i in range(len(seq)):
                c2 = dict(case)
                c2[key] = seq[:i] + seq[i + 1:]
                yield c2


# ------------------------------------------------------------------------------------------ launchers


def _progress_kw(case, holder):
    from vf.oracles.heur import ProgressStop

    st = case.get("stop")
    if not st:
        return {}
    ps = ProgressStop(st["at"], st["quiet"])
    holder.append(ps)
    return {"on_progress": ps, "progress_interval": st["interval"]}


def _launcher(case):
    """Returns (launch(objective, minimize, holder) -> Result, starts, bounds)."""
    from vf.oracles import heur as H

    s = case["solver"]
    opts = dict(case.get("opts", {}))
    seed, cbs = case["seed"], case["cbseed"]
    kind = case.get("kind")
    if s == "anneal":
        A = _m["anneal"]
        cool = opts.pop("cooling")
        if isinstance(cool, (tuple, list)):
            # ONE schedule object for all runs of the case (the repeated run, the mirrored run): the documented schedules
            # are functions of (initial_temp, iteration, max_iter) - a caller builds one and passes it wherever needed
            maker = {"linear": A.linear_cooling, "log": A.logarithmic_cooling, "exp": A.exponential_cooling}[cool[0]]
            shared = maker(cool[1])
            cool_f = lambda: shared  # noqa: E731
        else:
            cool_f = lambda: cool  # noqa: E731

        def launch(f, mn, holder):
            if kind == "scalar":
                from random import Random as _R

                rr = _R(cbs)
                return A.anneal(case["x0"], f, lambda x: x + rr.choice((-1, 1)), minimize=mn, seed=seed, cooling=cool_f(), **opts,
                                **_progress_kw(case, holder))
            nb = H.vec_neighbor(cbs, case["step"], case["grid"]) if kind == "vec" else H.perm_neighbor(cbs)
            return A.anneal(list(case["x0"]), f, nb, minimize=mn, seed=seed, cooling=cool_f(), **opts, **_progress_kw(case, holder))

        return launch, [case["x0"]], None
    if s == "tabu":
        T = _m["tabu"]

        def launch(f, mn, holder):
            if kind == "scalar":
                return T.tabu_search(case["x0"], f, lambda x: [(+1, x + 1), (-1, x - 1)], minimize=mn, seed=seed, **opts,
                                     **_progress_kw(case, holder))
            nbs = (H.vec_tabu_neighbors(case["step"], case["empty_after"]) if kind == "vec"
                   else H.perm_tabu_neighbors(case["as_iter"]))
            return T.tabu_search(list(case["x0"]), f, nbs, minimize=mn, seed=seed, **opts, **_progress_kw(case, holder))

        return launch, [case["x0"]], None
    if s in ("lns", "alns"):
        L = _m["lns"]
        mat = case["obj"]["c"]

        def ops():
            if kind == "vec":
                ds = [H.vec_destroy(k) for k in case["destroy"]]
                rs = [H.vec_repair(-3.0, 3.0, False) if r == "uniform" else H.vec_repair(-3.0, 3.0, True) if r == "grid"
                      else H.vec_repair_nudge(0.5) for r in case["repair"]]
            else:
                ds = [H.perm_destroy(k) for k in case["destroy"]]
                rs = [H.perm_repair_random() if r == "random" else H.perm_repair_greedy(mat) for r in case["repair"]]
            return ds, rs

        def launch(f, mn, holder):
            ds, rs = ops()
            o2 = dict(opts)
            if str(o2.get("accept", "")).startswith("custom:"):
                # a caller's own acceptance rule (the signature takes a callable): it decides where the walk goes, not
                # what the best evaluated candidate was
                o2["accept"] = {"custom:margin": lambda cur, new, it, rng: new <= cur - 1.0,
                                "custom:never": lambda cur, new, it, rng: False,
                                "custom:odd": lambda cur, new, it, rng: it % 2 == 1}[o2["accept"]]
            if s == "lns":
                return L.lns(list(case["x0"]), f, ds[0], rs[0], minimize=mn, seed=seed, **o2, **_progress_kw(case, holder))
            return L.alns(list(case["x0"]), f, ds, rs, minimize=mn, seed=seed, **o2, **_progress_kw(case, holder))

        return launch, [case["x0"]], None
    if s == "evolve":
        G = _m["genetic"]

        def launch(f, mn, holder):
            cr, mu = H.vec_crossover_mutate(cbs, case["step"]) if kind == "vec" else H.perm_crossover_mutate(cbs)
            return G.evolve(f, [list(p) for p in case["pop"]], cr, mu, minimize=mn, seed=seed, **opts, **_progress_kw(case, holder))

        return launch, case["pop"], None
    if s in ("de", "pso"):
        bounds = [tuple(b) for b in case["bounds"]]
        init = case.get("init")
        starts = [p for p in (init or []) if all(lo <= v <= hi for v, (lo, hi) in zip(p, bounds))]
        if s == "de":
            D = _m["differential_evolution"]

            def launch(f, mn, holder):
                return D.differential_evolution(f, list(bounds), minimize=mn, seed=seed,
                                                initial_population=None if init is None else [list(p) for p in init],
                                                **opts, **_progress_kw(case, holder))
        else:
            P = _m["particle_swarm"]

            def launch(f, mn, holder):
                return P.particle_swarm(f, list(bounds), minimize=mn, seed=seed,
                                        initial_positions=None if init is None else [list(p) for p in init],
                                        **opts, **_progress_kw(case, holder))

        return launch, starts, bounds
    if s == "nelder-mead":
        N = _m["nelder_mead"]

        def launch(f, mn, holder):
            return N.nelder_mead(f, list(case["x0"]), minimize=mn, **opts, **_progress_kw(case, holder))

        return launch, [case["x0"]], None
    if s == "bayes":
        B = _m["bayesian"]
        bounds = [tuple(b) for b in case["bounds"]]

        def launch(f, mn, holder):
            return B.bayesian_opt(f, list(bounds), minimize=mn, seed=seed, **opts, **_progress_kw(case, holder))

        return launch, [], bounds
    raise ValueError(s)


# ------------------------------------------------------------------------------------------ run


def _well_formed(obs, tag, r):
    try:
        r.solution, r.objective, r.iterations, r.evaluations, r.status  # noqa: B018
    except Exception as e:
        obs.violate("crash:malformed-result", f"{tag}: {r!r}: {e!r}")
        return False
    return True


def _note_stop(obs, holder):
    if holder and holder[-1].fired:
        obs.event("shape.early-stop-fired")
        return True
    return False


def _first_group(case, obs):
    from vf.common import call, is_crash
    from vf.oracles import heur as H

    launch, starts, bounds = _launcher(case)
    mn = case["minimize"]
    f = H.make_objective(case["obj"])
    fneg = H.make_objective(case["obj"], negate=True)
    tag = case["solver"]

    holder = []
    recA = H.Recorder(f)
    rA = call(obs, launch, recA, mn, holder, budget=BUDGET, what=tag)
    if is_crash(rA) or not _well_formed(obs, tag, rA):
        return
    stopped = _note_stop(obs, holder)
    obs.outcome(f"{tag}:{H.fields(rA)[4]}" + (":stopped" if stopped else ""))
    obs.nontrivial = len(recA.calls) >= 2
    okA = H.judge_first_group(obs, f"{tag}(minimize={mn})", rA, recA, f, mn, starts, bounds)

    rec2 = H.Recorder(f)
    r2 = call(obs, launch, rec2, mn, [], budget=BUDGET, what=tag + " (repeat)")
    if not is_crash(r2) and _well_formed(obs, tag, r2):
        H.judge_repeat(obs, tag, rA, r2)

    recB = H.Recorder(fneg)
    rB = call(obs, launch, recB, not mn, [], budget=BUDGET, what=tag + " (mirror)")
    if is_crash(rB) or not _well_formed(obs, tag, rB):
        return
    H.judge_first_group(obs, f"{tag}(mirror run: -f, minimize={not mn})", rB, recB, fneg, not mn, starts, bounds)
    if okA:
        H.judge_mirror(obs, tag, rA, rB, len(recA.calls), len(recB.calls))


def _recompute(obs, tag, res, f):
    from vf.common import short
    from vf.oracles.heur import close

    obs.event("rel.objective-recompute")
    fx = f(res.solution)
    if not close(res.objective, fx):
        obs.violate("objective-mismatch", f"{tag}: returned objective {res.objective!r} but f(returned x)={fx!r}; "
                                          f"x={short(res.solution, 200)}")


def _powell(case, obs):
    from vf.common import call, is_crash
    from vf.oracles import heur as H

    P = _m["powell"]
    f = H.make_objective(case["obj"])
    mn = case["minimize"]
    bounds = None if case["bounds"] is None else [tuple(b) for b in case["bounds"]]

    def launch(fn, holder):
        return P.powell(fn, list(case["x0"]), minimize=mn, bounds=bounds, **case["opts"], **_progress_kw(case, holder))

    holder = []
    rec = H.Recorder(f)
    r = call(obs, launch, rec, holder, budget=BUDGET, what="powell")
    if is_crash(r) or not _well_formed(obs, "powell", r):
        return
    stopped = _note_stop(obs, holder)
    obs.outcome(f"powell:{H.fields(r)[4]}" + (":stopped" if stopped else ""))
    obs.nontrivial = len(rec.calls) >= 2
    _recompute(obs, f"powell(minimize={mn}, bounds={bounds})", r, f)
    if bounds is not None:  # not part of the statement for powell: evidence only
        inside = all(lo - 1e-9 <= v <= hi + 1e-9 for v, (lo, hi) in zip(r.solution, bounds))
        obs.event("info.powell-inside-bounds" if inside else "info.powell-outside-bounds")
    r2 = call(obs, launch, H.Recorder(f), [], budget=BUDGET, what="powell (repeat)")
    if not is_crash(r2) and _well_formed(obs, "powell", r2):
        H.judge_repeat(obs, "powell", r, r2)


def _bfgs(case, obs):
    from vf.common import call, is_crash
    from vf.oracles import heur as H

    B = _m["bfgs"]
    mn = case["minimize"]
    # minimise the natural function, or maximise its negation
    f, g = H.smooth(case["sm"], negate=not mn)
    fn = getattr(B, case["variant"])
    tag = case["variant"]

    def launch(obj, holder):
        return fn(g, list(case["x0"]), minimize=mn, objective_fn=obj, **case["opts"], **_progress_kw(case, holder))

    holder = []
    rec = H.Recorder(f)
    r = call(obs, launch, rec, holder, budget=BUDGET, what=tag)
    if is_crash(r) or not _well_formed(obs, tag, r):
        return
    stopped = _note_stop(obs, holder)
    obs.outcome(f"{tag}:{H.fields(r)[4]}" + (":stopped" if stopped else ""))
    obs.nontrivial = len(rec.calls) >= 2
    _recompute(obs, f"{tag}(minimize={mn})", r, f)
    r2 = call(obs, launch, H.Recorder(f), [], budget=BUDGET, what=tag + " (repeat)")
    if not is_crash(r2) and _well_formed(obs, tag, r2):
        H.judge_repeat(obs, tag, r, r2)


def _tsp(case, obs):
    from vf.common import call, is_crash, short
    from vf.oracles import heur as H

    T = _m["tabu"]
    m = case["matrix"]
    n = len(m)
    mn = case["minimize"]

    def tour_len(t):
        return sum(m[t[i]][t[(i + 1) % len(t)]] for i in range(len(t)))

    def launch(holder):
        return T.solve_tsp([list(r) for r in m], minimize=mn, seed=case["seed"], **case["opts"], **_progress_kw(case, holder))

    results = []
    for rep in range(2):
        holder = []
        _tsp_ctx["on"], _tsp_ctx["runs"] = True, []
        try:
            r = call(obs, launch, holder, budget=BUDGET, what="solve_tsp")
        finally:
            _tsp_ctx["on"] = False
        inner = _tsp_ctx["runs"]
        if is_crash(r) or not _well_formed(obs, "solve_tsp", r):
            return
        results.append(r)
        if rep == 1:
            break
        _note_stop(obs, holder)
        obs.outcome(f"solve_tsp:n={'<4' if n < 4 else '>=4'}:{H.fields(r)[4]}")
        tour = r.solution
        obs.event("tsp.tour-is-permutation")
        if sorted(tour) != list(range(n)):
            obs.violate("tsp.not-a-tour", f"solve_tsp returned {short(tour, 200)} for n={n}")
            return
        obs.event("rel.objective-at-solution")
        if n and r.objective != tour_len(tour):
            obs.violate("objective-mismatch", f"solve_tsp: objective {r.objective!r}, length of returned tour {tour} is {tour_len(tour)!r}")
        if n >= 4:
            if len(inner) != 1:
                obs.event("info.tsp-without-tabu-search")
            else:
                start, rec, ires, imn = inner[0]
                obs.event("tsp.tabu-client-run")
                obs.nontrivial = len(rec.calls) >= 2

                def f(t):
                    return tour_len(t)

                if imn != mn:
                    obs.event("info.tsp-minimize-not-forwarded")
                # the relations are applied to what solve_tsp itself returned, with the user's `minimize`
                H.judge_first_group(obs, f"solve_tsp(minimize={mn}) via tabu_search", r, rec, f, mn, [start], None)
    if len(results) == 2:
        H.judge_repeat(obs, "solve_tsp", results[0], results[1])


def run(case, obs):
    s = case["solver"]
    if s == "powell":
        _powell(case, obs)
    elif s == "bfgs":
        _bfgs(case, obs)
    elif s == "tsp":
        _tsp(case, obs)
    else:
        _first_group(case, obs)
