"""C20 — UnionFind and FenwickTree behave like their obvious reference models."""

from itertools import product

ID = "C20"
RULE = ("operation histories on the real classes (random, plus all sequences of length<=L over n<=3 in the "
        "'exhaustive' strata); every call is judged against a shadow model kept by the harness (list of sets / "
        "plain list) - only a wrong public answer is a violation; icontract invariants+post-conditions on the "
        "representation are attached to the classes as anomaly detectors (events); a case is non-trivial "
        "if it has >=1 successful merge or >=1 update, and >=1 query after it; distinct = distinct op sequence")
ASSUMPTIONS = ["indices in range (documented domain)", "integer or dyadic-rational deltas so that float sums are exact"]
STRATA = [
    ("uf-random", 1500, 30000),
    ("uf-chains", 300, 6000),
    ("uf-tournament", 500, 8000),
    ("uf-large", 40, 500),
    ("ft-random", 1500, 30000),
    ("ft-size-ctor", 300, 6000),
    ("uf-exhaustive", 1, 1),
    ("ft-exhaustive", 1, 1),
]
REQUIRED_EVENTS = {"any": ["uf.post.union", "uf.post.find", "uf.inv.forest", "ft.post.update", "ft.post.prefix",
                           "ft.caller-list-scribbled"]}

_ds = None
_mon = None


def setup():
    global _ds, _mon
    from vf.instrument import mod
    from vf.monitors import ds as mon

    mon.attach()
    _mon = mon
    _ds = mod("solvor.utils.data_structures")


# ---------------------------------------------------------------- generators

def gen(stratum, rng, tier):
    if stratum == "uf-random" and rng.random() < 0.01:
        # no element at all: a partition of the empty set has no component
        return {"kind": "uf", "n": 0, "ops": [(rng.choice("qsg"), 0, 0) for _ in range(rng.randint(1, 4))]}
    if stratum == "uf-random":
        n = rng.randint(1, 12)
        ops = []
        hot = [rng.randrange(n) for _ in range(3)]
        for _ in range(rng.randint(1, 60)):
            k = rng.choice("uuuufcqsg")
            pick = (lambda: rng.choice(hot)) if rng.random() < 0.4 else (lambda: rng.randrange(n))
            a, b = pick(), pick()
            if k == "u" and rng.random() < 0.15:
                b = a  # self union
            if k == "u" and ops and rng.random() < 0.15:
                prev = [o for o in ops if o[0] == "u"]
                if prev:
                    _, a, b = rng.choice(prev)  # repeated union of the same pair
                    if rng.random() < 0.5:
                        a, b = b, a
            ops.append((k, a, b))
        return {"kind": "uf", "n": n, "ops": ops}
    if stratum == "uf-chains":
        # long find chains: union in an order that builds deep trees, then many finds
        n = rng.randint(4, 16)
        order = list(range(n))
        rng.shuffle(order)
        ops = []
        step = 1
        while step < n:
            for i in range(0, n - step, 2 * step):
                ops.append(("u", order[i], order[i + step]))
            step *= 2
        for _ in range(rng.randint(5, 30)):
            k = rng.choice("ffcqsg")
            ops.append((k, rng.randrange(n), rng.randrange(n)))
            if rng.random() < 0.2:
                ops.append(("u", rng.randrange(n), rng.randrange(n)))
        return {"kind": "uf", "n": n, "ops": ops}
    if stratum == "uf-large":
        # hundreds to thousands of elements (indices above CPython's small-int cache, computed at run time so that equal
        # indices are distinct objects), long chains, repeated and self unions far from index 0
        n = rng.randint(300, 3000)
        ops = []
        hot = [rng.randrange(n) for _ in range(6)] + [n - 1, n - 2]
        run = rng.randrange(n - 40)
        for i in range(rng.randint(5, 30)):
            ops.append(("u", run + i, run + i + 1))  # a chain
        for _ in range(rng.randint(40, 160)):
            k = rng.choice("uuuuufcqsg")
            a = rng.choice(hot) if rng.random() < 0.5 else rng.randrange(n)
            b = rng.choice(hot) if rng.random() < 0.5 else rng.randrange(n)
            if k == "u" and rng.random() < 0.2:
                b = a
            if k == "u" and rng.random() < 0.2:
                prev = [o for o in ops if o[0] == "u"]
                _, a, b = rng.choice(prev)
            ops.append((k, a, b))
        return {"kind": "uf", "n": n, "ops": ops, "fresh_ints": True}
    if stratum == "uf-tournament":
        # several maximal-height trees (binomial trees of 2**k elements built leader-with-leader, no reads in between),
        # then unions/queries that start from the deepest elements of one tree and reach into another tree:
        # anything that relies on a side effect of find() (full compression) or on ranks shows only here
        sizes = []
        while sum(sizes) < 6 or (sum(sizes) < 40 and rng.random() < 0.7):
            sizes.append(1 << rng.choice([0, 1, 2, 2, 3, 3, 3, 4]))
        n = sum(sizes)
        order = list(range(n))
        rng.shuffle(order)
        ops, blocks, base = [], [], 0
        rev = rng.random() < 0.5
        for sz in sizes:
            blk = order[base:base + sz]
            base += sz
            if rev:
                blk.reverse()
            blocks.append(blk)
            step = 1
            while step < sz:
                for i in range(0, sz - step, 2 * step):
                    a, b = blk[i], blk[i + step]
                    ops.append(("u", a, b) if rng.random() < 0.5 else ("u", b, a))
                step *= 2
        for _ in range(rng.randint(3, 14)):
            k = rng.choice("uuuuufcqsg")
            ba = rng.choice(blocks)
            bb = rng.choice(blocks)
            a = ba[-1] if rng.random() < 0.5 else rng.choice(ba)
            b = bb[-1] if rng.random() < 0.3 else rng.choice(bb)
            ops.append((k, a, b))
        return {"kind": "uf", "n": n, "ops": ops}
    if stratum in ("ft-random", "ft-size-ctor"):
        n = rng.randint(1, 12)
        # prefix() accumulates in float: keep values exactly representable.  "tiny": integer multiples of 2**-45 ..
        # 2**-60 (sums stay exact) - an array holding small units is an array like any other
        mode = rng.choice(["int", "dyadic", "dyadic", "tiny", "huge"])
        unit = 2.0 ** rng.choice([-45, -52, -60])

        def num():
            if mode == "int":
                return rng.randint(-9, 9)
            if mode == "tiny":
                return rng.randint(-64, 64) * unit
            if mode == "huge":
                # integers beyond 2**53: a plain array of ints adds them exactly, whatever their size
                return rng.choice([-1, 1]) * (2 ** rng.choice([53, 54, 60, 62]) + rng.randint(0, 9))
            return rng.randint(-64, 64) / 8.0

        init = n if stratum == "ft-size-ctor" else [num() for _ in range(n)]
        ops = []
        for _ in range(rng.randint(1, 50)):
            k = rng.choice("uuprr")
            if k == "u":
                ops.append(("u", rng.randrange(n), num()))
            elif k == "p":
                ops.append(("p", rng.randrange(n), None))
            else:
                lo = rng.randrange(n)
                ops.append(("r", lo, rng.randrange(lo, n)))
        return {"kind": "ft", "init": init, "ops": ops}
    if stratum == "uf-exhaustive":
        return {"kind": "uf-exh", "max_n": 3, "length": 4 if tier == "quick" else 5}
    if stratum == "ft-exhaustive":
        return {"kind": "ft-exh", "max_n": 3, "length": 4 if tier == "quick" else 5}
    raise ValueError(stratum)


# ---------------------------------------------------------------- shadow-model harness

def _recycle(got, obs):
    """What the caller does with an answer is its own business (pop a representative from each set, re-use the list):
    'queries never change later answers' includes answers that were handed out and then modified by their owner."""
    try:
        for c in list(got):
            if isinstance(c, (set, list, dict)):
                c.clear()
        if isinstance(got, (list, set, dict)):
            got.clear()
            if isinstance(got, list):
                got.append({-1})
        obs.event("uf.returned-containers-recycled")
    except Exception:
        pass


def _fresh_int(i):
    return int(str(i))  # equal value, new object (above the small-int cache): indices are compared, not identified


def _run_uf(n, ops, obs, fresh_ints=False):
    uf = _ds.UnionFind(n)
    part = [{i} for i in range(n)]
    home = {i: part[i] for i in range(n)}  # element -> its class (kept in step with `part`)

    def cls(x):
        return home[x]

    merges = 0
    q_after = 0
    for pos, (k, a, b) in enumerate(ops):
        if k == "u":
            ca, cb = cls(a), cls(b)
            exp = ca is not cb
            if exp:
                if len(cb) > len(ca):
                    ca, cb = cb, ca
                part.remove(cb)
                ca |= cb
                for e in cb:
                    home[e] = ca
                merges += 1
            got = uf.union(_fresh_int(a), _fresh_int(b)) if fresh_ints else uf.union(a, b)
            if got != exp:
                obs.violate("uf.union-return", f"op#{pos} union({a},{b}) returned {got}, model says {exp}")
        elif k == "f":
            r = uf.find(a)
            if r not in cls(a):
                obs.violate("uf.find-outside-class", f"op#{pos} find({a})={r}, class={sorted(cls(a))}")
            for m in cls(a):
                if uf.find(m) != r:
                    obs.violate("uf.find-not-canonical", f"op#{pos} find({m})!={r} for class-mate of {a}")
                    break
            q_after += merges > 0
        elif k == "c":
            got = uf.connected(a, b)
            if got != (cls(a) is cls(b)):
                obs.violate("uf.connected", f"op#{pos} connected({a},{b})={got}")
            q_after += merges > 0
        elif k == "q":
            if uf.component_count != len(part) or len(uf) != n:
                obs.violate("uf.component_count", f"op#{pos} {uf.component_count} vs {len(part)}")
            q_after += merges > 0
        elif k == "s":
            got = uf.component_sizes()
            if sorted(got) != sorted(len(s) for s in part):
                obs.violate("uf.component_sizes", f"op#{pos} {got}")
            _recycle(got, obs)
            q_after += merges > 0
        elif k == "g":
            got = uf.get_components()
            if sorted(map(sorted, got)) != sorted(map(sorted, part)):
                obs.violate("uf.get_components", f"op#{pos} {got}")
            _recycle(got, obs)
            q_after += merges > 0
    # final full comparison (queries never change later answers)
    if n <= 64:
        pairs = ((a, b) for a in range(n) for b in range(n))
    else:
        import random as _r

        rr = _r.Random(n * 7919 + len(ops))
        touched = sorted({x for _, a, b in ops for x in (a, b)})[:60]
        pairs = [(a, b) for a in touched for b in touched[:12]] + [(rr.randrange(n), rr.randrange(n)) for _ in range(400)]
    for a, b in pairs:
        if uf.connected(a, b) != (cls(a) is cls(b)):
            obs.violate("uf.final-connected", f"connected({a},{b}) after history")
            return merges, q_after
    if uf.component_count != len(part):
        obs.violate("uf.final-count", f"{uf.component_count} vs {len(part)}")
    got = uf.component_sizes()
    if sorted(got) != sorted(len(s) for s in part):
        obs.violate("uf.final-sizes", f"{got} vs {sorted(len(s) for s in part)}")
    got = uf.get_components()
    if sorted(map(sorted, got)) != sorted(map(sorted, part)):
        obs.violate("uf.final-components", f"{got}")
    reps = {}
    for a in range(n):
        reps.setdefault(uf.find(a), set()).add(a)
    if sorted(map(sorted, reps.values())) != sorted(map(sorted, part)) or any(r not in m for r, m in reps.items()):
        obs.violate("uf.final-find", f"find classes {sorted(map(sorted, reps.values()))}")
    return merges, q_after


def _run_ft(init, ops, obs):
    if isinstance(init, int):
        ft = _ds.FenwickTree(init)
        arr = [0] * init
    else:
        given = list(init)  # the caller's own list object
        ft = _ds.FenwickTree(given)
        arr = list(init)
        if any(ft.range_sum(i, i) != arr[i] for i in range(len(arr))):
            obs.violate("ft.init", f"constructed from {init}, range_sum(i,i) gives {[ft.range_sum(i, i) for i in range(len(arr))]}")
        if given != arr:
            obs.violate("ft.init-modifies-callers-list", f"list passed to the constructor became {given}, was {arr}")
        # the tree must behave like an array that *received* the initial values: later changes to the
        # caller's list are not point updates and must not show in any answer
        for i in range(len(given)):
            given[i] = 977
        obs.event("ft.caller-list-scribbled")
    if len(ft) != len(arr):
        obs.violate("ft.len", f"{len(ft)}")
    ups = 0
    q_after = 0
    for pos, (k, a, b) in enumerate(ops):
        if k == "u":
            ft.update(a, b)
            arr[a] += b
            ups += 1
        elif k == "p":
            got = ft.prefix(a)
            if got != sum(arr[: a + 1]):
                obs.violate("ft.prefix", f"op#{pos} prefix({a})={got} model={sum(arr[:a + 1])}")
            q_after += ups > 0
        else:
            got = ft.range_sum(a, b)
            if got != sum(arr[a : b + 1]):
                obs.violate("ft.range_sum", f"op#{pos} range_sum({a},{b})={got} model={sum(arr[a:b + 1])}")
            q_after += ups > 0
    for i in range(len(arr)):
        if ft.prefix(i) != sum(arr[: i + 1]):
            obs.violate("ft.final-prefix", f"prefix({i}) after history")
            break
    return ups, q_after


def _drain(obs):
    """Broken representation conditions are anomalies (events); returns how many were seen."""
    an = _mon.drain()
    for name, detail in an:
        obs.event("anomaly.contract:" + name)
        obs.mech.add("contract:" + name)
    for k, v in _mon.take_counts().items():
        obs.event(k, v)
    return len(an)


def run(case, obs):
    from vf.common import call

    kind = case["kind"]
    if kind == "uf":
        r = call(obs, _run_uf, case["n"], case["ops"], obs, case.get("fresh_ints", False), what="UnionFind history",
                 budget=max(4_000_000, 40_000 * case["n"]))
        if not isinstance(r, tuple):
            r = (0, 0)
        obs.nontrivial = r[0] >= 1 and r[1] >= 1
        obs.outcome("uf-history")
    elif kind == "ft":
        r = call(obs, _run_ft, case["init"], case["ops"], obs, what="FenwickTree history")
        if not isinstance(r, tuple):
            r = (0, 0)
        obs.nontrivial = r[0] >= 1 and r[1] >= 1
        obs.outcome("ft-history")
    elif kind == "uf-exh":
        cnt = 0
        for n in range(1, case["max_n"] + 1):
            alphabet = [("u", a, b) for a in range(n) for b in range(n)] + [("f", a, 0) for a in range(n)] + [
                ("c", a, b) for a in range(n) for b in range(a, n)] + [("s", 0, 0), ("g", 0, 0)]
            L = case["length"] if n < 3 else case["length"] - 1
            for length in range(1, L + 1):
                for ops in product(alphabet, repeat=length):
                    call(obs, _run_uf, n, ops, obs, what="UnionFind exhaustive", budget=10**7)
                    cnt += 1
                    if obs.violations:
                        obs.violations[-1] = (obs.violations[-1][0], f"n={n} ops={ops}: " + obs.violations[-1][1])
                        _drain(obs)
                        return
        obs.event("uf.exhaustive.histories", cnt)
        obs.nontrivial = True
        obs.outcome("uf-exhaustive")
    elif kind == "ft-exh":
        cnt = 0
        for n in range(1, case["max_n"] + 1):
            alphabet = [("u", i, d) for i in range(n) for d in (1, -2)] + [("p", i, None) for i in range(n)] + [
                ("r", lo, hi) for lo in range(n) for hi in range(lo, n)]
            L = case["length"] if n < 3 else case["length"] - 1
            for init in ([0] * n, list(range(1, n + 1)), n):
                for length in range(1, L + 1):
                    for ops in product(alphabet, repeat=length):
                        call(obs, _run_ft, init, ops, obs, what="FenwickTree exhaustive", budget=10**7)
                        cnt += 1
                        if obs.violations:
                            obs.violations[-1] = (obs.violations[-1][0], f"init={init} ops={ops}: " + obs.violations[-1][1])
                            _drain(obs)
                            return
        obs.event("ft.exhaustive.histories", cnt)
        obs.nontrivial = True
        obs.outcome("ft-exhaustive")
    _drain(obs)
