"""Shared machinery of C01 and C02 (both observe solve_sat; they judge different relations)."""

from vf.gen import cnf

_sat = None
_mon = None

# fuel budgets (steps) per stratum family; calibrated on the repaired tree (max observed x >= 50)
# (observed maxima on the repaired tree: tiny/threshold/tuning/planted < 80k, assume 220k, unsat-constructed 290k,
#  enum 1.3M, default-mode ~1.5M, reduce ~35M, enum-reduce 140M)
BUDGET_SMALL = 4_000_000
BUDGET_ASSUME = 12_000_000
BUDGET_MID = 15_000_000
BUDGET_ENUM = 70_000_000
BUDGET_DEFAULT = 80_000_000
BUDGET_BIG = 1_800_000_000


def setup():
    global _sat, _mon
    from vf.instrument import mod
    from vf.monitors import sat as mon

    mon.attach()
    _mon = mon
    _sat = mod("solvor.sat")


def _cp_cnf(rng):
    from vf.gen import cpgen
    from vf.instrument import mod
    from vf.oracles import cp as ocp

    try:
        cpm = mod("solvor.cp")
        encm = mod("solvor.cp_encoder")
        for _ in range(10):
            spec = cpgen.gen_spec(rng.choice(["mixed", "global", "sums", "supported", "planted-unique"]), rng)
            try:
                model, xs, built = ocp.build(spec, cpm.Model)
            except ocp.Unbuildable:
                continue
            enc = encm.SATEncoder(model)
            enc._clauses = []
            enc._encode_vars()
            for c in model._constraints:
                enc._encode_constraint(c)
            clauses = [list(c) for c in enc._clauses]
            if clauses and all(len(c) > 0 for c in clauses) and len({abs(l) for c in clauses for l in c}) <= 120:
                return clauses
    except Exception:
        pass
    return cnf.threshold(rng)


def gen(stratum, rng, tier):
    """case = {clauses, calls: [kw...], known: True/False/None, budget}"""
    known = None
    budget = BUDGET_SMALL
    if stratum == "suite":
        return {"suite": SUITE_FILES}
    if stratum == "cp-cnf":
        # CNFs produced by the real CP encoder from random CP models (exactly-one groups, channeling, MTZ ...)
        clauses = _cp_cnf(rng)
        calls = [{}, {"solution_limit": rng.choice([2, 5, 50]), "luby_factor": rng.choice([1, 2, 100])},
                 {"luby_factor": rng.choice([1, 2, 5])}]
        if rng.random() < 0.5:
            calls.append({"assumptions": cnf.with_assumptions(rng, clauses, 2)})
        return {"clauses": clauses, "calls": calls, "known": None, "budget": BUDGET_MID}
    if stratum == "aliased":
        # F + F: every clause *object* occurs twice in the list handed to the solver (same list objects, not copies)
        n = rng.randint(5, 12)
        F = [cnf.rand_clause(rng, n, rng.choice([3, 3, 3, 4, 2])) for _ in range(rng.randint(n, 4 * n))]
        for _ in range(rng.randint(0, 3)):
            F.append([rng.choice([-1, 1]) * rng.randint(1, n)])
        calls = [{}, {"luby_factor": rng.choice([1, 2, 5])}]
        if rng.random() < 0.4:
            calls.append({"solution_limit": rng.choice([2, 5, 50])})
        return {"clauses": F, "calls": calls, "known": None, "budget": BUDGET_SMALL,
                "alias": [(i, len(F)) for i in range(len(F))]}
    if stratum == "tiny":
        clauses = cnf.tiny(rng)
        calls = [{}]
        if rng.random() < 0.5:
            calls.append({"solution_limit": rng.choice([2, 3, 10, 100])})
        if rng.random() < 0.4:
            calls.append({"assumptions": cnf.with_assumptions(rng, clauses)})
        if rng.random() < 0.3:
            calls.append(cnf.tuning(rng))
        if rng.random() < 0.03:
            # the empty formula (a CNF with no clause): everything then rests on the assumption list
            clauses = []
            calls = [{}]
            for _ in range(rng.randint(1, 3)):
                a = [rng.choice([-1, 1]) * rng.randint(1, 5) for _ in range(rng.randint(1, 4))]
                if rng.random() < 0.3:
                    a.append(-a[0])  # contradictory assumptions: no model
                kw = {"assumptions": a}
                if rng.random() < 0.5:
                    kw["solution_limit"] = rng.choice([2, 5, 100])
                calls.append(kw)
    elif stratum == "threshold":
        clauses = cnf.threshold(rng)
        calls = [{}, {"luby_factor": rng.choice([1, 2, 5])}]
        if rng.random() < 0.5:
            calls.append({"solution_limit": rng.choice([2, 5, 50]), "luby_factor": rng.choice([1, 3, 100])})
    elif stratum == "unsat-core":
        # threshold formulas pushed towards UNSAT (higher ratio)
        n = rng.randint(8, 14)
        clauses = [cnf.rand_clause(rng, n, 3) for _ in range(int(n * rng.uniform(5.0, 7.0)))]
        calls = [{}, {"luby_factor": rng.choice([1, 2, 5])}, {"solution_limit": 5}]
    elif stratum == "planted":
        clauses, _model = cnf.planted(rng, 30, 70 if tier == "quick" else 90)
        known = True
        calls = [{}, {"luby_factor": rng.choice([1, 5, 20])}]
        budget = BUDGET_MID
    elif stratum == "mid":
        # 20-45 variables, clause lengths 2-4 around a planted model: deep decision levels, binary implications,
        # backjumps over many levels (certificate check is size-independent; SAT by construction)
        n = rng.randint(20, 45)
        model = {v: rng.random() < 0.5 for v in range(1, n + 1)}
        clauses = []
        target = int(n * rng.uniform(0.7, 3.4))  # sparse formulas reach deep decision levels
        while len(clauses) < target:
            c = cnf.rand_clause(rng, n, rng.choice([2, 2, 3, 3, 3, 4]))
            if any(model[abs(l)] == (l > 0) for l in c):
                clauses.append(c)
        known = True
        calls = [{}, {"luby_factor": rng.choice([1, 2, 5])}]
        if rng.random() < 0.4:
            calls.append({"solution_limit": rng.choice([2, 5, 20]), "luby_factor": rng.choice([1, 3, 100])})
        if rng.random() < 0.4:
            lits = [v if model[v] else -v for v in rng.sample(range(1, n + 1), 2)]
            calls.append({"assumptions": lits})
        budget = BUDGET_MID
    elif stratum == "long-run":
        # pigeonhole 8 into 7 (unsatisfiable by construction) under shuffled clause / literal order and several restart
        # schedules: 5 000 - 15 000 conflicts in one call, so activity rescaling, dozens of restarts and several
        # clause-database reductions all happen before the verdict.  (Random 3-SAT of 70-95 variables is refuted by
        # this solver in ~200 conflicts and is no use here.)
        p = 8 if tier == "quick" or rng.random() < 0.7 else 9
        clauses = cnf.pigeonhole(p, p - 1)
        rng.shuffle(clauses)
        clauses = [rng.sample(c, len(c)) for c in clauses]
        known = False
        calls = [{"luby_factor": rng.choice([100, 100, 30, 300])}]
        return {"clauses": clauses, "calls": calls, "known": known, "budget": 1_500_000_000}
    elif stratum == "reduce-planted":
        # satisfiable by construction and hard enough for >= 2000 learned clauses: clause-database reduction runs
        # on an instance whose verdict is known (a wrong INFEASIBLE after reduce_db is visible here)
        n = rng.randint(170, 220)
        clauses, model = cnf.planted(rng, n, n, ratio=rng.uniform(4.7, 5.2))
        known = True
        # planted instances near the threshold can be genuinely hard: the solver's own conflict budget bounds the
        # work (MAX_ITER with an exhausted budget is a legitimate answer), so the step budget stays an anomaly detector
        mc = 15_000
        calls = [{"max_conflicts": mc}, {"luby_factor": rng.choice([20, 30, 50]), "max_conflicts": mc}]
        budget = 400_000_000  # ~3000 steps per conflict observed => 30 000 conflicts need < 100M
        shuffled = list(clauses)
        return {"clauses": shuffled, "calls": calls, "known": known, "budget": budget, "model": model,
                "reexamine": [{"luby_factor": lf, "max_conflicts": mc} for lf in (10, 25, 40, 70)]}
    elif stratum == "enum":
        n = rng.randint(2, 9)
        clauses = [cnf.rand_clause(rng, n, rng.choice([2, 3, 3, 4])) for _ in range(rng.randint(1, int(n * 2.2) + 1))]
        if rng.random() < 0.4:
            clauses.append([rng.choice([-1, 1]) * rng.randint(1, n)])
        calls = [{"solution_limit": sl, "luby_factor": rng.choice([1, 2, 100])} for sl in rng.sample([2, 5, 50, 10**6], 2)]
        calls.append({"solution_limit": 10**6, "assumptions": cnf.with_assumptions(rng, clauses, 2)})
        budget = BUDGET_ENUM
    elif stratum == "assume":
        clauses = cnf.tiny(rng) if rng.random() < 0.6 else cnf.threshold(rng, 8, 13)
        calls = []
        for _ in range(3):
            kw = {"assumptions": cnf.with_assumptions(rng, clauses)}
            if rng.random() < 0.4:
                kw["solution_limit"] = rng.choice([2, 10, 10**6])
            calls.append(kw)
        budget = BUDGET_ASSUME
    elif stratum == "tuning":
        clauses = cnf.threshold(rng, 9, 15) if rng.random() < 0.7 else cnf.tiny(rng)
        calls = [cnf.tuning(rng) for _ in range(3)]
        if rng.random() < 0.5:
            calls[-1]["solution_limit"] = rng.choice([2, 20])
    elif stratum == "budget":
        # tiny budgets on instances that need many conflicts
        if rng.random() < 0.5:
            clauses = cnf.pigeonhole(rng.randint(4, 6), rng.randint(3, 4))
            known = None
        else:
            clauses, _ = cnf.planted(rng, 40, 60, ratio=4.2)
            known = True
        calls = [{"max_conflicts": rng.choice([1, 2, 5, 20, 100]), "luby_factor": rng.choice([1, 2, 100])},
                 {"max_restarts": rng.choice([0, 1, 3]), "luby_factor": rng.choice([1, 2, 3])}]
        budget = BUDGET_MID
    elif stratum == "default-mode":
        # all defaults; needs > 100 conflicts so that the first restart (luby_factor=100) fires
        r = rng.random()
        if r < 0.5:
            p = rng.randint(6, 7)
            clauses = cnf.pigeonhole(p, p - 1)
            known = False
        else:
            n = rng.randint(45, 75)
            clauses = [cnf.rand_clause(rng, n, 3) for _ in range(int(n * rng.uniform(4.2, 4.6)))]
            known = "dpll"  # status from the independent DPLL oracle (None if it gives up)
        calls = [{}]
        budget = BUDGET_DEFAULT
    elif stratum == "unsat-constructed":
        r = rng.random()
        if r < 0.4:
            p = rng.randint(3, 6)
            clauses = cnf.pigeonhole(p, p - 1)
        elif r < 0.7:
            clauses = cnf.parity_chain(rng, rng.choice([3, 5, 7, 9, 11, 4, 6, 8]))
        else:
            clauses = cnf.entailed_negation(rng)
        known = False
        calls = [{"luby_factor": rng.choice([1, 2, 10, 100])}, {"solution_limit": 3, "luby_factor": rng.choice([1, 5])}]
        budget = BUDGET_MID
    elif stratum == "reduce":
        # enough conflicts for >= 2000 learned clauses so that reduce_db fires
        clauses = cnf.pigeonhole(8, 7)
        known = False
        calls = [{"luby_factor": rng.choice([15, 20, 30])}]
        budget = BUDGET_BIG
    elif stratum == "enum-reduce":
        # thousands of models: the blocking clauses alone push the learned DB over the reduce threshold
        # duplicates after a clause-database reduction need the search to wander back to an unblocked model: in
        # practice >= ~4000 models; the time per case grows about quadratically with the model count
        n = rng.choice([12, 13, 14, 14]) if tier == "quick" else rng.randint(12, 15)
        kmin = 4 if n >= 14 and tier == "quick" else 2
        from vf.oracles import sat as osat

        hi = 9000 if tier == "quick" else 20000
        for _ in range(200):
            clauses = [cnf.rand_clause(rng, n, rng.choice([2, 3, 3, 4])) for _ in range(rng.randint(kmin, 9))]
            ms = osat.ModelSet(list(range(1, n + 1)))
            if 2500 <= ms.count(ms.models(clauses)) <= hi:
                break
        # a correct enumeration can never return more than 2**n entries: with this limit a solver that re-finds
        # models stops (and is convicted of duplicates) instead of running to the step budget
        # luby_factor 1 restarts (and re-reduces a database of thousands of blocking clauses) after every conflict:
        # correct but pathologically slow (one 9 000-model instance needed 930M steps), so it is left to the
        # thorough tier
        lfs = [2, 3, 5, 5, 10] if tier == "quick" else [1, 2, 3, 5, 10]
        calls = [{"solution_limit": 2 ** n + 1, "luby_factor": rng.choice(lfs)}]
        budget = BUDGET_BIG
    else:
        raise ValueError(stratum)
    shuffled = list(clauses)
    if rng.random() < 0.5:
        rng.shuffle(shuffled)
    allass = [l for kw in calls for l in kw.get("assumptions", [])]
    if stratum not in ("reduce", "default-mode", "enum-reduce") and allass == []:  # (renumbering adds unused variables)
        shuffled, _ = cnf.renumber(shuffled, rng)
    case = {"clauses": shuffled, "calls": calls, "known": known, "budget": budget}
    if stratum in ("tiny", "threshold", "assume", "enum", "unsat-core", "tuning") and shuffled and rng.random() < 0.12:
        # the same clause *object* (or tuple instead of list) occurring more than once in the input, e.g. F + F:
        # perfectly valid input, and the solver must not let its in-place watch reordering of one occurrence
        # disturb the other
        k = rng.randint(1, 3)
        case["alias"] = [(rng.randrange(len(shuffled)), rng.randrange(len(shuffled) + 1)) for _ in range(k)]
        case["as_tuples"] = rng.random() < 0.3
    return case


SUITE_FILES = ["tests/solvors/test_sat.py", "tests/solvors/test_cp.py"]


def run_suite(case, obs, judge):
    """Thorough tier: the repository's own SAT/CP tests executed under the monitors as extra workload.
    Their assertions are ignored; only the monitor verdicts on the recorded solve_sat calls count."""
    import contextlib
    import io
    import os

    import pytest

    repo = os.environ.get("VERIF_REPO", "/repo")
    files = [os.path.join(repo, f) for f in case["suite"] if os.path.exists(os.path.join(repo, f))]
    if not files:
        obs.event("suite.no-test-files")
        return
    _mon.drain()
    cwd = os.getcwd()
    os.chdir(repo)
    try:
        with contextlib.redirect_stdout(io.StringIO()), contextlib.redirect_stderr(io.StringIO()):
            pytest.main(["-q", "-x", "-p", "no:cacheprovider", "--no-cov", "-o", "addopts=", "--timeout=600", *files])
    except SystemExit:
        pass
    finally:
        os.chdir(cwd)
    for rec in _mon.drain():
        obs.event("suite.sat-calls")
        if rec["result"] is None:
            continue
        nv = len({abs(l) for c in rec["clauses"] for l in c})
        obs.event("suite.sat-calls-over-16-vars" if nv > 16 else "suite.sat-calls-upto-16-vars")
        for name, n in rec["l2"].items():
            obs.event("l2." + name, n)
        if judge == "C01":
            _mon.judge_c01(rec, obs)
        else:
            _mon.judge_c02(rec, obs)
    obs.nontrivial = True


def _call_clauses(case):
    """The clause list handed to solve_sat: fresh list objects, except for deliberate aliasing (the same list
    object at several positions) and tuple clauses when the case asks for them."""
    cl = [list(c) for c in case["clauses"]]
    base = len(cl)
    for i, pos in case.get("alias") or ():
        if i < base:
            cl.insert(min(pos, len(cl)), cl[i])
    if case.get("as_tuples"):
        cl = [tuple(c) if k % 2 else c for k, c in enumerate(cl)]
    return cl


def run(case, obs, judge):
    """judge: 'C01' or 'C02'."""
    from vf.common import call, is_crash

    if "suite" in case:
        return run_suite(case, obs, judge)

    clauses = case["clauses"]
    if case.get("known") == "dpll":
        from vf.oracles import sat as osat

        case = dict(case, known=osat.dpll_sat(clauses, limit=3_000_000))
        obs.event("c02.dpll-oracle-decided" if case["known"] is not None else "c02.dpll-oracle-gave-up")
    anomalies = False
    total_conflicts = 0
    total_models = 0
    _mon.KNOWN_MODEL[0] = case.get("model")
    calls = list(case["calls"])
    extra = list(case.get("reexamine") or [])
    while calls:
        kw = calls.pop(0)
        _mon.drain()
        res = call(obs, _sat.solve_sat, _call_clauses(case), budget=case["budget"], what="solve_sat",
                   hang_cls="sat.no-return-within-budget" if judge == "C02" else "event-only-hang", **kw)
        recs = _mon.drain()
        if is_crash(res):
            if res.kind == "hang" and judge == "C01":
                # a hang hands back no assignment: not a C01 matter (C02 reports it)
                obs.violations[:] = [v for v in obs.violations if v[0] != "event-only-hang"]
                obs.event("c01.no-answer-hang")
            continue
        obs.outcome(getattr(res.status, "name", str(res.status)))
        for rec in recs:
            if rec["result"] is None:
                continue
            for name, n in rec["l2"].items():
                obs.event("l2." + name, n)
            if rec["l2"].get("learned-falsified-by-known-model") and extra and not obs.violations:
                # unsound lemma seen on a big instance: give it more chances to surface as a wrong verdict
                calls.extend(extra)
                extra = []
                obs.event("reexamined-after-unsound-lemma")
            for name in ("backtrack-wrong-prefix", "level0-or-lower-level-lost", "learned-not-entailed",
                         "blocking-dropped", "backtrack-levels-left", "learned-falsified-by-known-model"):
                if rec["l2"].get(name):
                    anomalies = True
                    obs.mech.add("sat." + name)
                    obs.event("l2.ANOMALY." + name)
            if rec["l2"].get("monitor-error"):
                obs.event("l2.monitor-error")
            c = rec.get("counters") or {}
            total_conflicts += c.get("conflicts") or 0
            total_models += c.get("models") or 0
            if c:
                obs.event("sat.conflicts", c.get("conflicts") or 0)
                obs.event("sat.restarts", c.get("restarts") or 0)
                if (c.get("restarts") or 0) >= 1 and not kw:
                    obs.event("sat.default-config-run-with-restart")
            if judge == "C01":
                _mon.judge_c01(rec, obs)
            else:
                _mon.judge_c02(rec, obs, known=case.get("known"))
                # wrong-SAT is also a C02 matter ("never reports a model for an unsatisfiable formula")
        if kw.get("assumptions"):
            obs.nontrivial = True
    if anomalies and not obs.violations and case["budget"] <= BUDGET_DEFAULT:
        # an internal anomaly gets every chance to surface at the API: full enumeration under several restart schedules
        for lf in (1, 2, 100):
            _mon.drain()
            res = call(obs, _sat.solve_sat, [list(c) for c in clauses], budget=case["budget"], what="solve_sat(re-examination)",
                       hang_cls="sat.no-return-within-budget" if judge == "C02" else "event-only-hang",
                       solution_limit=10**6 if len({abs(l) for c in clauses for l in c}) <= 14 else 1, luby_factor=lf)
            obs.violations[:] = [v for v in obs.violations if v[0] != "event-only-hang"]
            for rec in _mon.drain():
                if rec["result"] is not None:
                    obs.event("reexamined")
                    if judge == "C01":
                        _mon.judge_c01(rec, obs)
                    else:
                        _mon.judge_c02(rec, obs, known=case.get("known"))
    _mon.KNOWN_MODEL[0] = None
    if total_conflicts >= 1 or total_models >= 2:
        obs.nontrivial = True


def shrink(case):
    if "suite" in case:
        return
    case = dict(case, known=None)  # by-construction status does not survive dropping clauses/literals
    cl = case["clauses"]
    if len(case["calls"]) > 1:
        for i in range(len(case["calls"])):
            yield dict(case, calls=[case["calls"][i]])
    for i in range(len(cl)):
        yield dict(case, clauses=cl[:i] + cl[i + 1:])
    for i, c in enumerate(cl):
        if len(c) > 1:
            for j in range(len(c)):
                yield dict(case, clauses=cl[:i] + [c[:j] + c[j + 1:]] + cl[i + 1:])
