"""Runner: tiers, seeds, worker pool, verdict folding, evidence, VIOLATION / KNOWN-FINDING lines.

./check Cxx [--tier quick|thorough] [--replay FILE] [--scale F]
exit 0: held on everything explored (KNOWN-FINDING lines allowed)
exit 1: at least one unlisted violation (VIOLATION property=<id> replay=<path>)
exit 2: inconclusive / infrastructure error
"""

import concurrent.futures as cf
import hashlib
import importlib
import json
import os
import shutil
import subprocess
import sys
import tempfile
import time

ROOT = os.path.dirname(os.path.dirname(os.path.abspath(__file__)))
PY = os.environ.get("VERIF_PYTHON", "/venv/bin/python")
DEPS = os.path.join(ROOT, ".deps")
HASHSEEDS = [0, 0, 1, 2, 3, 12345]


def ensure_deps():
    marker = os.path.join(DEPS, "icontract", "__init__.py")
    if os.path.exists(marker):
        return
    os.makedirs(DEPS, exist_ok=True)
    cmd = [PY, "-m", "pip", "install", "--quiet", "--no-index", "--find-links", "/opt/veriftools/wheels",
           "--target", DEPS, "icontract"]
    r = subprocess.run(cmd, capture_output=True, text=True)
    if r.returncode != 0 and not os.path.exists(marker):
        print("setup: pip install icontract failed:\n" + r.stdout + r.stderr, file=sys.stderr)
        raise SystemExit(2)


def worker_env(extra=None):
    env = dict(os.environ)
    repo = os.path.realpath(env.get("VERIF_REPO", "/repo"))
    env["VERIF_REPO"] = repo
    env["PYTHONHASHSEED"] = "0"
    env["PYTHONPATH"] = os.pathsep.join([repo, ROOT, DEPS])
    env["PYTHONDONTWRITEBYTECODE"] = "1"
    env.pop("SOLVOR_VERIF", None)
    if extra:
        env.update(extra)
    return env


def build_rust(scratch, profile="release"):
    """Compile rust/ from the working tree under test into scratch; returns path of the .so."""
    repo = os.path.realpath(os.environ.get("VERIF_REPO", "/repo"))
    src = os.path.join(scratch, "rust-src")
    if not os.path.exists(src):
        shutil.copytree(os.path.join(repo, "rust"), src, ignore=shutil.ignore_patterns("target"))
    tdir = os.path.join(scratch, "target")
    cmd = ["cargo", "build", "--offline", "--target-dir", tdir]
    if profile == "release":
        cmd.insert(2, "--release")
    env = dict(os.environ)
    env["CARGO_NET_OFFLINE"] = "true"
    env.setdefault("PYO3_PYTHON", PY)
    r = subprocess.run(cmd, cwd=src, capture_output=True, text=True, env=env)
    lib = os.path.join(tdir, profile if profile == "release" else "debug", "lib_solvor_rust.so")
    if r.returncode != 0 or not os.path.exists(lib):
        return None, (r.stdout + r.stderr)[-3000:]
    dst = os.path.join(scratch, f"{profile}", "_solvor_rust.cpython-312-x86_64-linux-gnu.so")
    os.makedirs(os.path.dirname(dst), exist_ok=True)
    shutil.copy(lib, dst)
    return dst, ""


def run_batch(pid, stratum, seed, start, n, tier, scratch, env, batch_wall):
    """Run one batch, restarting after a case that killed/timed out the worker. Returns list of records."""
    recs = []
    pos = start
    end = start + n
    attempts = 0
    while pos < end and attempts < 6:
        attempts += 1
        outfile = os.path.join(scratch, f"{pid}-{stratum}-{start}-{pos}.jsonl")
        cmd = [PY, "-m", "vf.worker", pid, stratum, str(seed), str(pos), str(end - pos), tier, outfile]
        # set/dict iteration order of str-keyed containers is part of the "schedule": batches run under different,
        # but reproducible, hash seeds (recorded per case, used again by --replay)
        env = dict(env, PYTHONHASHSEED=str(HASHSEEDS[(seed * 31 + start // max(1, n) + len(stratum)) % len(HASHSEEDS)]))
        err = ""
        try:
            r = subprocess.run(cmd, cwd=ROOT, env=env, capture_output=True, text=True, timeout=batch_wall)
            rc = r.returncode
            err = (r.stderr or "")[-1500:]
        except subprocess.TimeoutExpired as e:
            rc = -9
            err = "batch wall-clock timeout " + str(e)[-300:]
        last_started = None
        done = False
        got = set()
        if os.path.exists(outfile):
            for line in open(outfile):
                try:
                    j = json.loads(line)
                except Exception:
                    continue
                if "skipped" in j:
                    recs.append({"s": stratum, "i": -1, "skipped": j["skipped"]})
                elif "start" in j:
                    last_started = j["start"]
                elif j.get("done"):
                    done = True
                else:
                    if j["i"] in got:  # a minimised witness replaces the raw one written before shrinking
                        recs[:] = [r for r in recs if not (r.get("i") == j["i"] and r.get("s") == j.get("s") and "o" in r)]
                    recs.append(j)
                    got.add(j["i"])
            os.remove(outfile)
        if done:
            break
        # worker died: the case in progress is inconclusive
        if last_started is None:
            if attempts < 3:
                continue  # start-up failure (fork/import under memory pressure): try the same range again
            recs.append({"s": stratum, "i": pos, "infra": f"worker failed before first case rc={rc}: {err}"})
            break
        if last_started not in got:
            # retry the case alone in a fresh process once: a death that does not repeat was the machine, not the case
            single = os.path.join(scratch, f"{pid}-{stratum}-{start}-retry{last_started}.jsonl")
            cmd1 = [PY, "-m", "vf.worker", pid, stratum, str(seed), str(last_started), "1", tier, single]
            ok1 = False
            try:
                subprocess.run(cmd1, cwd=ROOT, env=env, capture_output=True, text=True, timeout=batch_wall)
                if os.path.exists(single):
                    for line in open(single):
                        try:
                            j = json.loads(line)
                        except Exception:
                            continue
                        if "o" in j:
                            j["retried_after_worker_death"] = True
                            recs.append(j)
                            ok1 = True
                    os.remove(single)
            except subprocess.TimeoutExpired:
                pass
            if not ok1:
                recs.append({"s": stratum, "i": last_started, "infra": f"worker died/timed out in case (twice) rc={rc}: {err}"})
        pos = last_started + 1
    return recs


def _is_representation_event(ev, prop):
    """Events produced by hooks on private functions / fields rather than by a judge at the public boundary."""
    import re

    if ev in getattr(prop, "BOUNDARY_EVENTS", ()):
        return False
    return bool(re.search(r"(^|\.)l2\.", ev)) or ev.startswith(("uf.post.", "uf.inv.", "ft.post.", "ft.inv.")) \
        or ev in getattr(prop, "L2_EVENTS", ())


def load_findings(pid):
    path = os.path.join(ROOT, "KNOWN_FINDINGS.txt")
    out = []
    if not os.path.exists(path):
        return out
    for line in open(path):
        line = line.strip()
        if not line.startswith("finding:"):
            continue
        fields = dict(tok.split("=", 1) for tok in line.split()[1:4] if "=" in tok)
        if fields.get("property") != pid:
            continue
        out.append({"key": fields.get("key"), "classes": set((fields.get("classes") or "").split(",")), "text": line})
    return out


def main(argv):
    if argv and argv[0] == "--setup":
        ensure_deps()
        import compileall

        compileall.compile_dir(os.path.join(ROOT, "vf"), quiet=1)
        print("setup ok")
        return 0
    pid = argv[0].upper()
    tier = os.environ.get("VERIF_TIER", "quick")
    replay = None
    scale = float(os.environ.get("VERIF_SCALE", "1"))
    only = None
    i = 1
    while i < len(argv):
        if argv[i] == "--tier":
            tier = argv[i + 1]
            i += 2
        elif argv[i] == "--replay":
            replay = argv[i + 1]
            i += 2
        elif argv[i] == "--scale":
            scale = float(argv[i + 1])
            i += 2
        elif argv[i] == "--only":
            only = set(argv[i + 1].split(","))
            i += 2
        else:
            raise SystemExit(f"unknown argument {argv[i]}")
    if tier not in ("quick", "thorough"):
        raise SystemExit("tier must be quick or thorough")
    seed = int(os.environ.get("VERIF_SEED", "0"))
    ensure_deps()
    sys.path.insert(0, ROOT)
    prop = importlib.import_module(f"vf.props.{pid.lower()}")
    t0 = time.time()
    scratch = tempfile.mkdtemp(prefix=f"vf-{pid}-")
    try:
        return _run(pid, prop, tier, seed, replay, scale, only, scratch, t0)
    finally:
        shutil.rmtree(scratch, ignore_errors=True)


def _run(pid, prop, tier, seed, replay, scale, only, scratch, t0):
    extra = {}
    infra = []
    if getattr(prop, "NEEDS_RUST", False):
        profile = "release"
        if replay:
            try:
                profile = json.load(open(replay)).get("rust_profile", "release")
            except Exception:
                pass
        so, err = build_rust(scratch, profile)
        if so is None:
            print(f"INCONCLUSIVE property={pid} reason=rust build failed\n{err}")
            return 2
        extra["VERIF_RUST_SO"] = so
        if profile == "debug":
            extra["VERIF_RUST_PROFILE"] = "debug"
    env = worker_env(extra)

    if replay:
        outfile = os.path.join(scratch, "replay.jsonl")
        try:
            env = dict(env, PYTHONHASHSEED=str(json.load(open(replay)).get("hashseed", "0")))
        except Exception:
            pass
        r = subprocess.run([PY, "-m", "vf.worker", pid, "--replay", replay, outfile], cwd=ROOT, env=env,
                           capture_output=True, text=True, timeout=3600)
        if not os.path.exists(outfile) or r.returncode != 0:
            print(f"INCONCLUSIVE property={pid} reason=replay worker failed rc={r.returncode}\n{r.stderr[-2000:]}")
            return 2
        j = json.loads(open(outfile).read().splitlines()[-1])
        vio = j["o"]["violations"]
        print(json.dumps({"replay": replay, "violations": vio, "events": j["o"]["events"]}, indent=1)[:6000])
        if vio:
            findings = load_findings(pid)
            keys = set(j.get("keys", []))
            known = [f for f in findings if f["key"] in keys and any(c in f["classes"] or "*" in f["classes"] for c, _ in vio)]
            if known:
                print(f"KNOWN-FINDING: property={pid} key={known[0]['key']} (replayed)")
                return 0
            print(f"VIOLATION property={pid} replay={replay}")
            return 1
        print(f"replay held: property={pid}")
        return 0

    strata = [(s[0], s[1] if tier == "quick" else s[2]) for s in prop.STRATA]
    qs = float(getattr(prop, "QUICK_SCALE", 1)) if tier == "quick" else 1.0
    if qs != 1.0:
        # per-property multiplier for the quick tier (strata with single-digit counts are exhaustive or one-shot)
        strata = [(n, int(c * qs) if c >= 10 else c) for n, c in strata]
    if only:
        strata = [s for s in strata if s[0] in only]
    jobs = []
    nworkers = int(os.environ.get("VERIF_JOBS", str(min(16, os.cpu_count() or 4))))
    for name, count in strata:
        count = max(1, int(count * scale)) if count else 0
        if count == 0:
            continue
        per = getattr(prop, "BATCH", {}).get(name) or max(1, min(400, -(-count // (nworkers * 2))))
        for start in range(0, count, per):
            jobs.append((name, start, min(per, count - start)))
    batch_wall = int(os.environ.get("VERIF_BATCH_WALL_S", "1800" if tier == "quick" else "7200"))
    recs = []
    # extra rust profile (thorough): a second pass of the same jobs on the dev build
    passes = [("", env)]
    if getattr(prop, "NEEDS_RUST", False) and tier == "thorough" and getattr(prop, "DEV_PROFILE", True):
        so2, err2 = build_rust(scratch, "debug")
        if so2 is None:
            infra.append("rust dev-profile build failed: " + err2[-400:])
        else:
            env2 = worker_env({"VERIF_RUST_SO": so2, "VERIF_RUST_PROFILE": "debug"})
            passes.append(("dev:", env2))
    with cf.ThreadPoolExecutor(max_workers=nworkers) as ex:
        futs = {}
        for tag, e in passes:
            for name, start, n in jobs:
                sd = seed if not tag else seed + 100003
                futs[ex.submit(run_batch, pid, name, sd, start, n, tier, scratch, e, batch_wall)] = (tag, name)
        max_total = int(os.environ.get("VERIF_MAX_VIOL_TOTAL", "40"))
        nviol = 0
        cancelled = 0
        for f in cf.as_completed(futs):
            tag, name = futs[f]
            if f.cancelled():
                continue
            try:
                for r in f.result():
                    r["tag"] = tag
                    recs.append(r)
                    if r.get("o", {}).get("violations"):
                        nviol += 1
            except cf.CancelledError:
                continue
            except Exception as e:  # infrastructure
                infra.append(f"{tag}{name}: {e!r}")
            if nviol >= max_total and not cancelled:
                # the tree is refuted many times over: do not start the remaining batches (a tree that hangs in
                # every call would otherwise burn every step budget before the run can report)
                for g in futs:
                    if g.cancel():
                        cancelled += 1
        if cancelled:
            print(f"  ({cancelled} batches not started after {nviol} violating cases)")
    return fold(pid, prop, tier, seed, recs, infra, t0, partial=bool(only) or scale < 1)


def fold(pid, prop, tier, seed, recs, infra, t0, partial=False):
    from vf.common import unpack  # noqa: F401

    per_stratum = {}
    events, outcomes, modes = {}, {}, {}
    hashes_nt = set()
    hashes_all = set()
    evaluations = 0
    fuel_max = 0
    calls = 0
    samples = []
    sample_count = {}
    violations = []
    inconclusive = []
    slowest = 0.0
    for r in recs:
        st = r.get("tag", "") + str(r.get("s"))
        ps = per_stratum.setdefault(st, {"cases": 0, "violations": 0, "nontrivial": 0, "fuel_max": 0, "slowest_s": 0.0})
        if "skipped" in r:
            ps["skipped_after_violations"] = ps.get("skipped_after_violations", 0) + r["skipped"]
            continue
        if "infra" in r:
            inconclusive.append({"stratum": st, "index": r.get("i"), "reason": r["infra"]})
            continue
        o = r["o"]
        evaluations += 1
        ps["cases"] += 1
        hashes_all.add(r["h"])
        if o["nontrivial"]:
            hashes_nt.add(r["h"])
            ps["nontrivial"] += 1
        for k, v in o["events"].items():
            events[k] = events.get(k, 0) + v
        for k, v in o["outcomes"].items():
            outcomes[k] = outcomes.get(k, 0) + v
        for k, v in o["modes"].items():
            modes[k] = modes.get(k, 0) + v
        fuel_max = max(fuel_max, o["fuel_max"])
        ps["fuel_max"] = max(ps["fuel_max"], o["fuel_max"])
        ps["slowest_s"] = max(ps["slowest_s"], r.get("t", 0))
        calls += o["calls"]
        slowest = max(slowest, r.get("t", 0))
        for reason in o["inconclusive"]:
            inconclusive.append({"stratum": st, "index": r["i"], "reason": reason})
        if o["violations"]:
            ps["violations"] += 1
            violations.append(r)
        if "repr" in r and sample_count.get(st, 0) < 2 and not o["violations"]:
            sample_count[st] = sample_count.get(st, 0) + 1
            samples.append({"stratum": st, "index": r["i"], "case": r["repr"], "outcomes": o["outcomes"], "events": o["events"]})

    findings = load_findings(pid)
    known_hits = {}
    new_violations = []
    for r in violations:
        vio = r["o"]["violations"]
        keys = set(r.get("keys", []))
        matched = None
        for f in findings:
            if f["key"] in keys and all((c in f["classes"] or "*" in f["classes"]) for c, _ in vio):
                matched = f
                break
        if matched:
            known_hits.setdefault(matched["key"], []).append(r)
        else:
            new_violations.append(r)

    replay_dir = os.environ.get("VERIF_REPLAY_DIR") or os.path.join(ROOT, "replays")
    os.makedirs(replay_dir, exist_ok=True)
    lines = []
    seen_cls = {}
    for r in new_violations:
        cls = r["o"]["violations"][0][0]
        seen_cls[cls] = seen_cls.get(cls, 0) + 1
        if seen_cls[cls] > 5:
            continue  # at most five witnesses per class
        sha = hashlib.sha1((r.get("case") or r["h"]).encode()).hexdigest()[:8]
        safe = "".join(ch if ch.isalnum() or ch in "-_." else "_" for ch in cls)[:60]
        path = os.path.join("replays", f"{pid}-{safe}-{sha}.json")
        if os.environ.get("VERIF_REPLAY_DIR"):
            path = os.path.join(replay_dir, f"{pid}-{safe}-{sha}.json")
        with open(os.path.join(ROOT, path), "w") as fh:
            json.dump({"property": pid, "stratum": r["s"], "index": r["i"], "seed": seed, "tier": tier,
                       "class": cls, "violations": r["o"]["violations"], "events": r["o"]["events"],
                       "mechanism_events": r["o"].get("mech", []), "case_repr": r.get("repr"),
                       "rust_profile": "debug" if r.get("tag") == "dev:" else "release",
                       "hashseed": r.get("hs", "0"),
                       "case_pickle_b64": r.get("case")}, fh, indent=1)
        lines.append(f"VIOLATION property={pid} replay={path}")
        print(f"  class={cls} stratum={r.get('tag','')}{r['s']} index={r['i']}: {r['o']['violations'][0][1][:400]}")
    for key, rs in known_hits.items():
        w = rs[0]
        print(f"KNOWN-FINDING: property={pid} key={key} {len(rs)} case(s), e.g. stratum={w['s']} index={w['i']} "
              f"class={w['o']['violations'][0][0]}: {w['o']['violations'][0][1][:200]}")

    # deciding monitors must have observed something
    required = getattr(prop, "REQUIRED_EVENTS", {}).get(tier, getattr(prop, "REQUIRED_EVENTS", {}).get("any", []))
    l2_not_observed = []
    strict_l2 = os.environ.get("VERIF_STRICT_L2") == "1"
    for ev in ([] if partial else required):  # partial (--only / --scale<1) development runs skip this
        if events.get(ev, 0) == 0 and not new_violations:
            if _is_representation_event(ev, prop) and not strict_l2:
                # hooks on private functions / fields (L2): their absence means the internals are not the ones the
                # hooks were written for (or were refactored); the verdict rests on the boundary judges, which are
                # required below as before.  Reported, never an alarm.  VERIF_STRICT_L2=1 makes it inconclusive.
                l2_not_observed.append(ev)
                continue
            inconclusive.append({"stratum": "*", "index": None, "reason": f"deciding monitor '{ev}' observed no event"})
    for ev in l2_not_observed:
        print(f"NOTE property={pid} internal (L2) monitor '{ev}' observed no event: internals differ from the hooked ones")
    for msg in infra:
        inconclusive.append({"stratum": "*", "index": None, "reason": msg})
    if evaluations == 0:
        inconclusive.append({"stratum": "*", "index": None, "reason": "no case executed"})

    wall = time.time() - t0
    evidence = {
        "property_id": pid,
        "tier": tier,
        "seed": seed,
        "level": "exploration",
        "coverage": {
            "evaluations": evaluations,
            "distinct_nontrivial": len(hashes_nt),
            "distinct_cases": len(hashes_all),
            "rule": getattr(prop, "RULE", ""),
            "samples": samples[:24],
            "per_stratum": per_stratum,
            "outcomes": dict(sorted(outcomes.items())),
            "monitor_events": dict(sorted(events.items())),
            "internal_monitors_not_observed": l2_not_observed,
            "oracle_modes": modes,
            "solver_calls": calls,
            "fuel_max_observed": fuel_max,
            "slowest_case_s": slowest,
            "known_finding_hits": {k: len(v) for k, v in known_hits.items()},
            "violation_classes": seen_cls,
            "inconclusive": inconclusive[:50],
            "repo": os.path.realpath(os.environ.get("VERIF_REPO", "/repo")),
        },
        "assumptions": list(getattr(prop, "ASSUMPTIONS", [])),
        "wall_s": round(wall, 2),
        "violations": len(new_violations),
    }
    ev_dir = os.environ.get("VERIF_EVIDENCE_DIR") or os.path.join(ROOT, "evidence")
    os.makedirs(ev_dir, exist_ok=True)
    # development runs (--only / --scale < 1) must not replace the record of the registered command
    name = f"{pid}.json" if not partial else f"{pid}.partial.json"
    with open(os.path.join(ev_dir, name), "w") as fh:
        json.dump(evidence, fh, indent=1, default=str)

    print(f"{pid} tier={tier} seed={seed}: {evaluations} cases ({len(hashes_nt)} distinct non-trivial), "
          f"{calls} solver calls, events={sum(events.values())}, violations={len(new_violations)}, "
          f"known={sum(len(v) for v in known_hits.values())}, inconclusive={len(inconclusive)}, {wall:.1f}s")
    for ln in lines:
        print(ln)
    if new_violations:
        return 1
    if inconclusive:
        for x in inconclusive[:10]:
            print(f"INCONCLUSIVE property={pid} reason={x['reason'][:300]} stratum={x['stratum']} index={x['index']}")
        return 2
    return 0


if __name__ == "__main__":
    sys.exit(main(sys.argv[1:]))
