"""Worker: runs a batch of cases of one property/stratum in this process and writes JSON lines.

usage: python -m vf.worker PROP STRATUM SEED START N TIER OUTFILE
       python -m vf.worker PROP --replay FILE OUTFILE
"""

import faulthandler
import importlib
import json
import os
import sys
import time
from random import Random

CASE_WALL_S = int(os.environ.get("VERIF_CASE_WALL_S", "1500"))
SHRINK_MAX_CASE_S = float(os.environ.get("VERIF_SHRINK_MAX_CASE_S", "20"))  # cases slower than this are not minimised
SHRINK_BUDGET_S = float(os.environ.get("VERIF_SHRINK_BUDGET_S", "120"))


def bootstrap(needs_rust=False):
    """Make `import solvor` resolve to the tree under test; control the Rust extension."""
    repo = os.path.realpath(os.environ.get("VERIF_REPO", "/repo"))
    if repo in sys.path:
        sys.path.remove(repo)
    sys.path.insert(0, repo)
    so = os.environ.get("VERIF_RUST_SO")
    if needs_rust and so:
        import importlib.machinery
        import importlib.util

        loader = importlib.machinery.ExtensionFileLoader("solvor._solvor_rust", so)
        spec = importlib.util.spec_from_file_location("solvor._solvor_rust", so, loader=loader)
        m = importlib.util.module_from_spec(spec)
        spec.loader.exec_module(m)
        sys.modules["solvor._solvor_rust"] = m
        import solvor

        solvor._solvor_rust = m
    else:
        # Pure-Python path regardless of a (possibly stale) pre-built extension lying in the tree
        sys.modules["solvor._solvor_rust"] = None
        import solvor
    got = os.path.realpath(os.path.dirname(solvor.__file__))
    want = os.path.join(repo, "solvor")
    if got != want:
        raise SystemExit(f"vf.worker: solvor imported from {got}, expected {want}")
    sys.setrecursionlimit(20000)


def load_prop(pid):
    return importlib.import_module(f"vf.props.{pid.lower()}")


def run_case(prop, case, stratum):
    from vf.common import Obs

    obs = Obs()
    obs.stratum = stratum
    prop.run(case, obs)
    return obs


def main(argv):
    from vf.common import case_hash, pack, short, unpack

    pid = argv[0]
    prop = load_prop(pid)
    bootstrap(getattr(prop, "NEEDS_RUST", False))
    if hasattr(prop, "setup"):
        prop.setup()
    if argv[1] == "--replay":
        rp = json.load(open(argv[2]))
        out = open(argv[3], "w")
        case = unpack(rp["case_pickle_b64"])
        obs = run_case(prop, case, rp.get("stratum", "replay"))
        rec = {"s": rp.get("stratum"), "i": rp.get("index"), "h": case_hash(case), "o": obs.to_json(), "repr": short(case, 4000)}
        if obs.violations and hasattr(prop, "finding_keys"):
            rec["keys"] = sorted(prop.finding_keys(case, obs))
        out.write(json.dumps(rec) + "\n")
        out.close()
        return 0
    stratum, seed, start, n, tier, outfile = argv[1], int(argv[2]), int(argv[3]), int(argv[4]), argv[5], argv[6]
    out = open(outfile, "a")
    max_viol = int(os.environ.get("VERIF_MAX_VIOL_PER_BATCH", "4"))
    nviol = 0
    for i in range(start, start + n):
        if nviol >= max_viol:
            # enough witnesses from this batch: do not spend the run on a tree that is already refuted
            out.write(json.dumps({"skipped": start + n - i, "s": stratum}) + "\n")
            break
        out.write(json.dumps({"start": i}) + "\n")
        out.flush()
        faulthandler.dump_traceback_later(CASE_WALL_S, exit=True)
        t0 = time.time()
        rng = Random(f"{pid}/{stratum}/{seed}/{i}")
        case = prop.gen(stratum, rng, tier)
        obs = run_case(prop, case, stratum)
        faulthandler.cancel_dump_traceback_later()
        rec = {"s": stratum, "i": i, "h": case_hash(case), "o": obs.to_json(), "t": round(time.time() - t0, 3),
               "hs": os.environ.get("PYTHONHASHSEED", "0")}
        if obs.violations:
            nviol += 1
            # the witness is on disk before any minimisation starts: shrinking must never lose a violation
            rec["case"] = pack(case)
            rec["repr"] = short(case, 4000)
            if hasattr(prop, "finding_keys"):
                rec["keys"] = sorted(prop.finding_keys(case, obs))
            out.write(json.dumps(rec) + "\n")
            out.flush()
            cls0 = obs.violations[0][0]
            slow = (time.time() - t0) > SHRINK_MAX_CASE_S or "hang" in cls0 or "no-return" in cls0
            if hasattr(prop, "shrink") and not slow:
                try:
                    faulthandler.dump_traceback_later(CASE_WALL_S, exit=True)
                    small = shrink_case(prop, case, obs, stratum)
                    obs2 = run_case(prop, small, stratum)
                    if obs2.violations:
                        rec = dict(rec, o=obs2.to_json(), shrunk=True, case=pack(small), repr=short(small, 4000))
                        if hasattr(prop, "finding_keys"):
                            rec["keys"] = sorted(prop.finding_keys(small, obs2))
                        out.write(json.dumps(rec) + "\n")  # same (stratum, index): the runner keeps the last record
                        out.flush()
                except Exception:
                    pass
                finally:
                    faulthandler.cancel_dump_traceback_later()
            continue
        elif i - start < 2 or obs.inconclusive:
            rec["repr"] = short(case, 1200)
        out.write(json.dumps(rec) + "\n")
        out.flush()
    out.write(json.dumps({"done": True}) + "\n")
    out.close()
    return 0


def shrink_case(prop, case, obs, stratum, max_runs=150):
    """Greedy minimisation: adopt any candidate that still shows the same first violation class."""
    cls = obs.violations[0][0]
    runs = 0
    improved = True
    t_end = time.time() + SHRINK_BUDGET_S
    while improved and runs < max_runs and time.time() < t_end:
        improved = False
        for cand in prop.shrink(case):
            runs += 1
            if runs > max_runs or time.time() > t_end:
                break
            try:
                o = run_case(prop, cand, stratum)
            except Exception:
                continue
            if any(c == cls for c, _ in o.violations):
                case = cand
                improved = True
                break
    return case


if __name__ == "__main__":
    sys.path.insert(0, os.path.dirname(os.path.dirname(os.path.abspath(__file__))))
    sys.exit(main(sys.argv[1:]))
